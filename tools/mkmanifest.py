#!/usr/bin/env python3
"""Writes MANIFEST.json from the table below (kept in one place so that it is always valid)."""
import json, os
V = os.path.dirname(os.path.dirname(os.path.abspath(__file__)))
LEGA = (" Leg A: the transcription spec/AlgArith.tla of the implementation is checked exhaustively in small formats (spec/MC_Small.tla, spec/MC_Machine.tla) "
        "against the same contract operators, and is bound to the code by a bit-for-bit drift check at binary64 on every recorded arithmetic event (zero drift on the current tree).")
TB = ("Trusted: TLC's evaluator + CommunityModules (Json, IOUtils, FoldLeft); the harness code that slices f64/integer bits "
      "into limbs (round-trip self-tested); rustc/cargo. Not trusted because re-derived in the spec: host f64 arithmetic, libm, "
      "no_overlap/is_valid. Sampled at binary64: the contract is decided exactly on every recorded call, but the calls are a "
      "directed/random sample of the input space.")
CHECKS = {
 "C02": ("model_checking", "TLA+ contracts (exact dyadic arithmetic) + TLC trace validation of recorded executions; exhaustive small-format TLC model of the 2Sum/2Prod transcriptions",
         "Exactness of new_add/new_sub/new_mul, the new_div tolerance and from_f64 are decided in exact limb arithmetic on every recorded call of the real crate (directed pairs: equal/opposite, subnormal, 1000+ binades apart, products at the 2^-960 / 2^1023 edges); the error-free transformations are additionally enumerated over all operand pairs of small formats." + LEGA),
 "C03": ("exploration", "TLA+ contracts + TLC trace validation of recorded executions (exact dyadic oracle)",
         "The 3u^2+13u^3 / 2u^2 bounds are integer inequalities over exact values, evaluated by TLC on every recorded +,-,+=,-= call (all pairings and spellings) of directed operands: cancellation at every depth, ties, powers of two, far-apart exponents, results fed back. A worst-case bound over 2^256 operand pairs cannot be enumerated at binary64: exploration. The lattice families (harness/src/gen5.rs) additionally enumerate the exhaustive product of structural operand classes at binary64 (significand shapes x low-word classes of both operands x ulp offsets / exponent differences x spellings), sliced." + LEGA),
 "C04": ("exploration", "TLA+ contracts + TLC trace validation of recorded executions (exact dyadic oracle)",
         "5u^2 / 2u^2 bounds, zero/unit/power-of-two exactness clauses decided exactly on every recorded multiplication. The lattice families (harness/src/gen5.rs) additionally enumerate the exhaustive product of structural operand classes at binary64 (significand shapes x low-word classes of both operands x ulp offsets / exponent differences x spellings), sliced." + LEGA),
 "C05": ("exploration", "TLA+ contracts + TLC trace validation of recorded executions (exact dyadic oracle)",
         "3u^2 / 16u^2 bounds by cross-multiplication, a/a = 1, unit and power-of-two divisors, recip == 1.0/x via the determinism memo. The lattice families (harness/src/gen5.rs) additionally enumerate the exhaustive product of structural operand classes at binary64 (significand shapes x low-word classes of both operands x ulp offsets / exponent differences x spellings), sliced." + LEGA),
 "C19": ("exploration", "TLA+ contracts + TLC trace validation of recorded executions (exact dyadic oracle)",
         "truncated / floored quotient semantics decided with exact big-integer division in TLA+ on every recorded %, %=, div_euclid, rem_euclid call (integer, near-integer, tiny and huge quotients, all sign combinations)." + LEGA),
 "C01": ("model_checking", "TLA+ state machine with the Normalised clause on every TwoFloat-producing action + TLC trace validation of random programs recorded from the real crate; exhaustive small-format TLC models of the transcribed algorithms",
         "Normalised (valid or non-finite high word) is evaluated by the spec's own RN after every call of random 50-200-call programs with results fed back, of the directed arithmetic/conversion/rounding corpora, of 128-bit integer conversions aimed at the tie-beside-odd pattern, and of programs mixing arithmetic with every mathematical function whose results are steered through the gradual-underflow and near-overflow zones (prog_elem)." + LEGA),
 "C06": ("model_checking", "TLA+ contracts (exact comparison of values) + TLC trace validation; relational checks through the determinism memo",
         "Every comparison operator in every pairing and both argument orders is checked against the exact three-way comparison of the values on related operand pairs (same high word, one low-word ulp apart, sign of zero), f64 comparands incl. infinities/NaN, and NaN-bearing values reachable through the API. The lattice families (harness/src/gen5.rs) additionally enumerate the exhaustive product of structural operand classes at binary64 (significand shapes x low-word classes of both operands x ulp offsets / exponent differences x spellings), sliced." + LEGA),
 "C07": ("model_checking", "TLA+ definition RN(a+b)=a evaluated by the spec's own RN + TLC trace validation over the complete structural grid",
         "no_overlap / is_valid / TryFrom are compared with Definition 1.4 computed by the specification on the complete structural grid of the bit-level algorithm (every exponent field x significand classes x thresholds x signs) and on random bit patterns." + LEGA),
 "C08": ("model_checking", "TLA+ contracts (exact integer arithmetic on limbs) + TLC trace validation; exhaustive small-format model of the case split",
         "floor/ceil/trunc/round/fract results must equal the exact functions of the exact value, on directed values covering every branch of the case split (fraction in hi / in lo / in both / nowhere, halves, signs). The lattice families (harness/src/gen5.rs) additionally enumerate the exhaustive product of structural operand classes at binary64 (significand shapes x low-word classes of both operands x ulp offsets / exponent differences x spellings), sliced." + LEGA),
 "C09": ("model_checking", "TLA+ contracts (big-integer ranges, exact truncation) + TLC trace validation; exhaustive for the 8/16-bit types",
         "From<int> is validated for every value of i8/u8/i16/u16 and on boundary-dense / tie-targeted 32-128-bit values; TryFrom at +-1 low-word ulp of every type's bounds; float conversions against the spec's RN at binary32." + LEGA),
 "C10": ("model_checking", "determinism memo of the TLA+ machine (one key per operation and operand words) + TLC trace validation of every spelling",
         "All ~150 spellings of an operand tuple must refine onto one memo entry with identical words; algebraic identities are relations between memo entries." + LEGA),
 "C11": ("exploration", "determinism memo across build configurations + exact FMA contract; TLC trace validation of interleaved std / no_std traces",
         "The same seeded corpus is executed by a default-features and a --no-default-features build; interleaved traces must agree word for word; the cfg-selected fma (hook) is compared with RN(x*y+z) computed by the specification."),
 "C12": ("model_checking", "rigorous ball enclosures of the mathematical constants computed in TLA+ (Machin, atanh series, Taylor, verified division / integer square root) + TLC trace validation; the finite set of constants is checked completely",
         "All 19 consts::* and FloatConst accessors and the 7 associated constants are compared on every run with the correctly rounded double-double derived from an enclosure computed by the specification; to_degrees/to_radians are decided three-valued against an enclosure of pi on sampled operands. The exhaustive families of harness/src/gen5.rs add: every function of the family on every structural value (significand shapes x low-word classes) at the exponents where its behaviour changes (function lattices), every exponent of the format for the operations with exactness claims at powers of two (exponent_sweep), and for exp the exact node and midpoint of every lookup-table entry (exp_nodes)."),
 "C13": ("exploration", "TLA+ contracts: exact dyadic inequalities on r^2 / r^3, ball enclosure of x^|n| by binary powering; TLC trace validation",
         "sqrt/cbrt/hypot tolerances are exact integer inequalities; powi is checked against an enclosure of x^|n| for exponents log-uniform in |n| with i32::MIN/MAX, 0, +-1 always included, the n = 0 / 1 clauses, totality (no panic) and powi(x,-n) == recip(powi(x,n)) through the memo. The exhaustive families of harness/src/gen5.rs add: every function of the family on every structural value (significand shapes x low-word classes) at the exponents where its behaviour changes (function lattices), every exponent of the format for the operations with exactness claims at powers of two (exponent_sweep), and for exp the exact node and midpoint of every lookup-table entry (exp_nodes)." + LEGA),
 "C14": ("exploration", "TLA+ ball-arithmetic enclosures of exp / expm1 (Taylor with explicit remainder, enclosure of ln 2) + TLC trace validation, three-valued verdicts",
         "Accuracy floors, exact points, saturation and the sign/parity rules of exp, exp2, exp_m1, powf are decided on stratified arguments (every lookup-table entry from both reduction sides, every range switch, tie low words); a panic is a violation on the whole valid domain. The exhaustive families of harness/src/gen5.rs add: every function of the family on every structural value (significand shapes x low-word classes) at the exponents where its behaviour changes (function lattices), every exponent of the format for the operations with exactness claims at powers of two (exponent_sweep), and for exp the exact node and midpoint of every lookup-table entry (exp_nodes)." + LEGA),
 "C15": ("exploration", "TLA+ enclosure of ln by rigorous Newton steps through the exp enclosure + TLC trace validation",
         "ln, log2, log10, ln_1p floors, exact points, domain errors and panic-freedom on 1960 binades, densely around 1 and at -1 < x; log/log10 as quotients through the memo. The exhaustive families of harness/src/gen5.rs add: every function of the family on every structural value (significand shapes x low-word classes) at the exponents where its behaviour changes (function lattices), every exponent of the format for the operations with exactness claims at powers of two (exponent_sweep), and for exp the exact node and midpoint of every lookup-table entry (exp_nodes)."),
 "C16": ("exploration", "TLA+ enclosures of sin / cos (reduction with an enclosure of pi/2) + TLC trace validation",
         "Absolute/relative floors of sin, cos, the tan bound cross-multiplied by cos^2, sin_cos == (sin, cos) through the memo, exact points, invalid arguments. The exhaustive families of harness/src/gen5.rs add: every function of the family on every structural value (significand shapes x low-word classes) at the exponents where its behaviour changes (function lattices), every exponent of the format for the operations with exactness claims at powers of two (exponent_sweep), and for exp the exact node and midpoint of every lookup-table entry (exp_nodes)." + LEGA),
 "C17": ("exploration", "monotone inversion through the sin / cos enclosures at r +- tolerance (exact end points) + TLC trace validation",
         "asin, acos, atan, atan2 floors, branch conventions on the axes (bit-identical to the correctly rounded pi, pi/2), domain errors. The exhaustive families of harness/src/gen5.rs add: every function of the family on every structural value (significand shapes x low-word classes) at the exponents where its behaviour changes (function lattices), every exponent of the format for the operations with exactness claims at powers of two (exponent_sweep), and for exp the exact node and midpoint of every lookup-table entry (exp_nodes)." + LEGA),
 "C18": ("exploration", "enclosures of exp; monotone inversion for the inverse functions + TLC trace validation",
         "sinh, cosh, tanh, asinh, acosh, atanh floors with (x, -x) pairs at every magnitude, exact points, domain errors, panic-freedom. The exhaustive families of harness/src/gen5.rs add: every function of the family on every structural value (significand shapes x low-word classes) at the exponents where its behaviour changes (function lattices), every exponent of the format for the operations with exactness claims at powers of two (exponent_sweep), and for exp the exact node and midpoint of every lookup-table entry (exp_nodes)."),
 "C20": ("model_checking", "TLA+ contracts: tokeniser over the logged character sequence + the deserialisation acceptance automaton (well-formed and NoOverlapDef) ; TLC trace validation of the format matrix and of every input shape",
         "Display/LowerExp/UpperExp outputs are tokenised by the specification and compared with f64 parsing / f64 renderings for the whole flag matrix; Serialize output and Deserialize outcomes (sequence, map in both orders, missing/duplicate/unknown fields, overlapping and non-finite words) are validated against the acceptance automaton with the serde feature enabled."),
}
NOT_YET = {}
def main():
    props = [json.loads(l)["id"] for l in open(os.path.join(V, "properties.jsonl"))]
    checks = []
    for p in props:
        if p in CHECKS:
            lvl, tech, text = CHECKS[p]
            checks.append({
                "property_id": p,
                "quick_cmd": "./tools/check.py %s --tier quick" % p,
                "thorough_cmd": "./tools/check.py %s --tier thorough" % p,
                "evidence_file": "evidence/%s.json" % p,
                "replay_cmd_template": "./tools/check.py %s --replay {path}" % p,
                "engine": "tla-trace",
                "level_claimed": {"category": lvl, "text": text, "design_ref": "DESIGN.md §3 " + p},
                "level_note": TB,
                "technique": tech,
            })
    na = [{"property_id": p, "reason": NOT_YET.get(p, "check not built yet in this round (work in progress; see DESIGN.md §6 build order)")} for p in props if p not in CHECKS]
    m = {
        "version": 1,
        "setup_cmd": "./tools/setup.sh",
        "hooks": {
            "guard": "--cfg twofloat_verif",
            "enable": "harness/.cargo/config.toml sets rustflags = [\"--cfg\", \"twofloat_verif\"] for the harness build (path dependency on /repo)",
            "baseline_off_cmd": "cd /repo && cargo test --workspace --no-fail-fast --offline",
            "source_commits": ["37f9bf6"],
            "add_only": True,
        },
        "engines": [
            {"name": "tla-trace", "path": "spec/Trace.tla", "serves_properties": sorted(CHECKS),
             "kind_free_text": "TLA+ state machine of the library (spec/Machine.tla + Contracts*.tla over BigNat/Dyadic/IEEE/DD/Ball/Elementary) checked by TLC: trace validation of executions recorded from the real crate by harness/ (impl -> spec), with a drift check against the transcription spec/AlgArith.tla"},
            {"name": "tla-mc", "path": "spec/MC_Small.tla", "serves_properties": ["C01", "C02", "C03", "C04", "C05", "C06", "C07", "C08", "C09", "C10", "C13", "C14", "C16", "C17", "C19"],
             "kind_free_text": "exhaustive TLC models of the transcribed algorithms in small floating-point formats (P = 3, 4, 5): spec/MC_Small.tla (every operand pair / every value, sliced over 16 TLC processes), spec/MC_Machine.tla (all states reachable by arbitrary chains of operations), spec/AlgFlow.tla (exp reduction, quadrant selection, atan and asin dispatch, powf parity, exp2 range switch / reduction / power-of-two scaling); sqrt, cbrt (nondeterministic faithful seed), powi, integer conversions and the remainder forms are modelled in MC_Small directly"},
        ],
        "checks": checks,
        "not_applicable": na,
        "notes": "All verdicts are computed by TLC from the TLA+ specification; tools/check.py only builds, runs, slices and reports.",
    }
    json.dump(m, open(os.path.join(V, "MANIFEST.json"), "w"), indent=1)
main()
