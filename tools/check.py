#!/usr/bin/env python3
"""Orchestration only: build the harness from /repo's working tree, record traces, run TLC
(trace validation against spec/Trace.tla, exhaustive small-format models spec/MC_*.tla),
match deviations against known_findings.json, write evidence/<id>.json, print
VIOLATION / KNOWN-FINDING lines.  Nothing about a property is computed here: every verdict is a
deviation record written by the TLA+ specification or a TLC invariant violation.

usage: check.py <Cxx> [--tier quick|thorough] [--replay FILE]
exit:  0 property held on everything explored; 1 VIOLATION printed; 2 tool error / timeout
"""
import json, os, subprocess, sys, time, shutil, re, collections, concurrent.futures as cf

VERIF = os.path.dirname(os.path.dirname(os.path.abspath(__file__)))
SPEC = os.path.join(VERIF, "spec")
HARN = os.path.join(VERIF, "harness")
sys.path.insert(0, os.path.join(VERIF, "tools"))
from plan import PLAN  # per-property plan: traces to record, models to check

JOBS = int(os.environ.get("VERIF_JOBS", "14"))


class ToolError(Exception):
    pass


def sh(cmd, cwd=None, env=None, timeout=None):
    e = dict(os.environ)
    e.update(env or {})
    p = subprocess.run(cmd, cwd=cwd, env=e, stdout=subprocess.PIPE, stderr=subprocess.STDOUT, timeout=timeout, text=True)
    return p.returncode, p.stdout


# ------------------------------------------------------------------ harness builds
VARIANTS = {
    "std": ["--features", "std"],
    "nostd": [],
    "serde": ["--features", "std,serde"],
}


def harness_dir():
    """the harness crate; with VERIF_REPO=<dir> (a snapshot of the repository used by background
    runs) a copy whose path dependency points at that directory"""
    alt = os.environ.get("VERIF_REPO")
    if not alt or os.path.realpath(alt) == "/repo":
        return HARN
    d = os.path.join(VERIF, "work", "harness_alt")
    os.makedirs(d, exist_ok=True)
    sh(["rsync", "-a", "--delete", "--exclude", "target", HARN + "/", d + "/"])
    ct = open(os.path.join(d, "Cargo.toml")).read().replace('path = "/repo"', 'path = "%s"' % alt)
    open(os.path.join(d, "Cargo.toml"), "w").write(ct)
    return d


def build_harness(variant):
    global HARN
    HARN = harness_dir()
    tdir = os.path.join(HARN, "target", variant)
    cmd = ["cargo", "build", "--release", "--offline", "--no-default-features", "--target-dir", tdir] + VARIANTS[variant]
    rc, out = sh(cmd, cwd=HARN, env={"CARGO_NET_OFFLINE": "true"}, timeout=1200)
    if rc != 0:
        raise ToolError("harness build failed (%s):\n%s" % (variant, out[-3000:]))
    return os.path.join(tdir, "release", "tfh")


# ------------------------------------------------------------------ TLC
def tlc(args, env, metadir, timeout):
    e = {"JAVA_TOOL_OPTIONS": "-Xss1g -Xmx%s" % env.pop("XMX", "3g")}
    e.update(env)
    cmd = ["timeout", str(timeout), "tlc", "-metadir", metadir, "-cleanup", "-noGenerateSpecTE"] + args
    t0 = time.time()
    rc, out = sh(cmd, cwd=SPEC, env=e)
    shutil.rmtree(metadir, ignore_errors=True)
    return rc, out, time.time() - t0


def validate_trace(trace, wd, timeout=900, extra_env=None):
    """run Trace.tla on one trace slice; returns the result record written by the spec"""
    out = trace + ".out.json"
    if os.path.exists(out):
        os.remove(out)
    env = {"TRACE": trace, "OUT": out, "XMX": "3g", "DRIFT": "1"}
    env.update(extra_env or {})
    rc, log, dt = tlc(["-workers", "1", "-config", "Trace.cfg", "Trace.tla"], env, os.path.join(wd, "md_" + os.path.basename(trace)), timeout)
    if rc == 124:
        raise ToolError("TLC timeout on %s" % trace)
    if not os.path.exists(out) or "Model checking completed. No error has been found." not in log:
        open(trace + ".tlc.log", "w").write(log)
        raise ToolError("TLC failed on %s (rc=%d), log: %s.tlc.log\n%s" % (trace, rc, trace, log[-1500:]))
    res = json.load(open(out))
    if res["consumed"] != res["events"]:
        raise ToolError("trace not consumed: %s" % trace)
    m = re.search(r"(\d+) states generated, (\d+) distinct states found", log)
    res["states"] = int(m.group(2)) if m else 0
    res["wall"] = dt
    return res


def run_mc_whole(model, cfg, wd, workers, timeout):
    """one TLC run with many workers (reachable-state exploration, e.g. MC_Machine)"""
    rc, log, dt = tlc(["-workers", str(workers), "-config", cfg, model], {"XMX": "10g"},
                      os.path.join(wd, "md_%s" % cfg.replace(".cfg", "")), timeout)
    if rc == 124:
        raise ToolError("TLC timeout on model %s/%s" % (model, cfg))
    m = re.search(r"(\d+) states generated, (\d+) distinct states found", log)
    ok = "Model checking completed. No error has been found." in log
    if not ok and "is violated" not in log:
        raise ToolError("TLC failed on model %s/%s rc=%d\n%s" % (model, cfg, rc, log[-3000:]))
    return ok, (int(m.group(2)) if m else 0), (int(m.group(1)) if m else 0), log, dt


def run_mc(model, cfg, wd, nslices, timeout, extra_env=None):
    """exhaustive small-format model, sliced over `nslices` TLC processes (one worker each);
    returns (ok, states, transitions, log of the first failing slice or of slice 0, wall)"""
    t0 = time.time()

    def one(sl):
        env = {"XMX": "4g", "VERIF_SLICE": str(sl), "VERIF_NSLICES": str(nslices)}
        env.update(extra_env or {})
        rc, log, dt = tlc(["-workers", "1", "-config", cfg, model], env,
                          os.path.join(wd, "md_%s_%d" % (cfg.replace(".cfg", ""), sl)), timeout)
        if rc == 124:
            raise ToolError("TLC timeout on model %s/%s slice %d" % (model, cfg, sl))
        m = re.search(r"(\d+) states generated, (\d+) distinct states found", log)
        ok = "Model checking completed. No error has been found." in log
        violated = "is violated" in log
        if not ok and not violated:
            raise ToolError("TLC failed on model %s/%s slice %d rc=%d\n%s" % (model, cfg, sl, rc, log[-3000:]))
        if ok and "MC_SIZES" not in log:
            raise ToolError("model %s/%s slice %d did not report its sizes (vacuous run?)" % (model, cfg, sl))
        return ok, (int(m.group(2)) if m else 0), (int(m.group(1)) if m else 0), log

    with cf.ThreadPoolExecutor(JOBS) as ex:
        outs = list(ex.map(one, range(nslices)))
    ok = all(o[0] for o in outs)
    states = sum(o[1] for o in outs)
    trans = sum(o[2] for o in outs)
    log = next((o[3] for o in outs if not o[0]), outs[0][3])
    return ok, states, trans, log, time.time() - t0


# ------------------------------------------------------------------ traces
def operand_resolver():
    """bookkeeping only: follow register contents so that distinct operand tuples can be counted"""
    regs = {}

    def resolve(ev):
        out = []
        for a in ev.get("a", []):
            if a["t"] == "r":
                out.append(regs.get(a["i"]))
            elif a["t"] == "rl":
                out.append([regs.get(i) for i in a["v"]])
            else:
                out.append(a)
        key = json.dumps([ev["op"], out], sort_keys=True)
        d = ev.get("d", -1)
        if d is not None and d >= 0 and ev["res"]["t"] in ("tf", "tf2"):
            regs[d] = [ev["res"]["hi"], ev["res"]["lo"]]
        return key

    return resolve


def group_of(lines, idx):
    """the events of the group that contains line idx (0-based), from its group marker"""
    s = idx
    while s > 0 and '"op":"group"' not in lines[s]:
        s -= 1
    return lines[s:idx + 1]


def load_known():
    p = os.path.join(VERIF, "known_findings.json")
    if not os.path.exists(p):
        return []
    return json.load(open(p))["findings"]


def match_known(dev, known):
    for k in known:
        if k.get("status", "finding") != "finding":
            continue  # "fixed" entries suppress nothing
        if k["property"] == dev["prop"] and k["op"] == dev["op"] and k["clause"] == dev["clause"]:
            if "sp" in k and k["sp"] != dev.get("sp"):
                continue
            return k
    return None


def record(plan, tier, seed, bins, wd, scale, tag):
    """run the generators of the plan (sizes multiplied by `scale`) and return [(trace file, job)]"""
    gens = []
    for j in plan.get("traces", []):
        n = (j["n"][0] if tier == "quick" else j["n"][1]) * scale
        k = j["slices"][0] if tier == "quick" else j["slices"][1]
        for s in range(k):
            out = os.path.join(wd, "traces", "%s%s_%s_%d.ndjson" % (tag, j["family"], j["variant"], s))
            gens.append((bins[j["variant"]], j, n, seed * 1000 + s + (500 if tag else 0), out))

    def gen(g):
        b, j, n, sd, out = g
        rc, o = sh([b, "gen", j["family"], str(n), out], env={"VERIF_SEED": str(sd), "VERIF_SLICE": str(sd % 1000 % 500)}, timeout=1800)
        if rc != 0:
            raise ToolError("generator %s failed: %s" % (j["family"], o[-800:]))
        return (out, j)

    with cf.ThreadPoolExecutor(JOBS) as ex:
        slices = list(ex.map(gen, gens))
    # spec -> impl: behaviour sets enumerated by TLC (spec/GenBehaviours.tla), replayed into the real code
    if not tag:
        for sg in plan.get("specgen", []):
            gfile = os.path.join(wd, "traces", "gen_%s.ndjson" % sg["gen"])
            rc, log, dt = tlc(["-workers", "1", "-config", "GenBehaviours.cfg", "GenBehaviours.tla"],
                              {"GEN": sg["gen"], "GENOUT": gfile, "XMX": "4g"}, os.path.join(wd, "md_gen_" + sg["gen"]), 900)
            if "GENERATED" not in log or not os.path.exists(gfile):
                raise ToolError("behaviour generation failed (%s)\n%s" % (sg["gen"], log[-1500:]))
            out = os.path.join(wd, "traces", "specgen_%s_%s_0.ndjson" % (sg["gen"], sg["variant"]))
            rc, o = sh([bins[sg["variant"]], "replay", gfile, out], timeout=900)
            if rc != 0:
                raise ToolError("replay of generated behaviours failed: " + o[-500:])
            slices.append((out, {"family": "specgen_" + sg["gen"], "variant": sg["variant"]}))
    # C11-style merged traces: interleave the groups of two configurations (text only)
    for m in plan.get("merge", []):
        merged = []
        by = collections.defaultdict(dict)
        for (f, j) in slices:
            if j["family"] == m["family"]:
                by[os.path.basename(f).rsplit("_", 1)[1]][j["variant"]] = f
        for sl, d in by.items():
            out = os.path.join(wd, "traces", "%s%s_merged_%s" % (tag, m["family"], sl))
            merge_groups([d[v] for v in m["variants"]], out)
            merged.append((out, {"family": m["family"] + "_merged", "variant": "+".join(m["variants"])}))
        slices = [(f, j) for (f, j) in slices if j["family"] != m["family"]] + merged
    return slices


def validate_all(slices, wd, plan):
    results = []
    with cf.ThreadPoolExecutor(JOBS) as ex:
        futs = {ex.submit(validate_trace, f, wd, plan.get("trace_timeout", 3000), dict(plan.get("trace_env") or {}, **(j.get("env") or {}))): (f, j) for (f, j) in slices}
        for fu in cf.as_completed(futs):
            f, j = futs[fu]
            results.append((f, j, fu.result()))
    return results


def main():
    if len(sys.argv) < 2:
        print(__doc__)
        return 2
    prop = sys.argv[1]
    tier = os.environ.get("VERIF_TIER", "quick")
    replay = None
    i = 2
    while i < len(sys.argv):
        if sys.argv[i] == "--tier":
            tier = sys.argv[i + 1]
            i += 2
        elif sys.argv[i] == "--replay":
            replay = sys.argv[i + 1]
            i += 2
        else:
            i += 1
    seed = int(os.environ.get("VERIF_SEED", "1"))
    if prop not in PLAN:
        print("unknown property", prop)
        return 2
    plan = PLAN[prop]
    t0 = time.time()
    wd = os.path.join(VERIF, "work", prop)
    shutil.rmtree(wd, ignore_errors=True)
    os.makedirs(os.path.join(wd, "traces"))
    os.makedirs(os.path.join(VERIF, "work", "replays"), exist_ok=True)
    os.makedirs(os.path.join(VERIF, "evidence"), exist_ok=True)
    known = load_known()
    try:
        return run(prop, plan, tier, seed, replay, wd, known, t0)
    except ToolError as e:
        print("TOOL-ERROR property=%s %s" % (prop, e))
        return 2
    except subprocess.TimeoutExpired as e:
        print("TOOL-ERROR property=%s timeout %s" % (prop, e))
        return 2


def run(prop, plan, tier, seed, replay, wd, known, t0):
    variants = sorted({j["variant"] for j in plan.get("traces", [])} | {j["variant"] for j in plan.get("specgen", [])} | ({"std"} if replay else set()))
    bins = {v: build_harness(v) for v in variants}

    # ---------------- record traces from the real code
    slices = []  # (trace file, job)
    if replay:
        out = os.path.join(wd, "traces", "replay.ndjson")
        first = open(replay).readline()
        variant = "std"
        try:
            variant = json.loads(first).get("variant", "std")
        except Exception:
            pass
        outs = []
        for v in variant.split("+"):
            if v not in bins:
                bins[v] = build_harness(v)
            o1 = os.path.join(wd, "traces", "replay_%s.ndjson" % v)
            # each build replays only the calls (the recorded results of the other build are ignored)
            tmp = os.path.join(wd, "traces", "replay_in_%s.ndjson" % v)
            seen = set()
            with open(tmp, "w") as fh:
                for ln in open(replay):
                    if not ln.strip():
                        continue
                    e = json.loads(ln)
                    if e["op"] != "group":
                        key = json.dumps([e["op"], e["sp"], e["d"], e["a"]], sort_keys=True)
                        if "+" in variant and key in seen:
                            continue      # the merged group contains every call once per configuration
                        seen.add(key)
                    fh.write(ln)
            rc, o = sh([bins[v], "replay", tmp, o1], env={"VERIF_SEED": str(seed)}, timeout=600)
            if rc != 0:
                raise ToolError("harness replay failed: " + o[-500:])
            outs.append(o1)
        if len(outs) == 1:
            out = outs[0]
        else:
            merge_groups(outs, out)
        slices.append((out, {"family": "replay", "variant": variant}))
    else:
        slices = record(plan, tier, seed, bins, wd, 1, "")

    # ---------------- validate every slice against the specification (impl -> spec)
    results = validate_all(slices, wd, plan)
    drift = collections.Counter()
    for (_, _, res) in results:
        for d in res.get("drift", []):
            drift["%s/%s" % (d["op"], d["sp"])] += 1
    escalated = False
    if drift and not replay and not any(d["prop"] in plan.get("props", [prop]) for (_, _, r) in results for d in r["devs"]):
        # the implementation no longer reproduces the transcription's bits and nothing has been found yet:
        # spend more samples on the same generators before concluding
        escalated = True
        results += validate_all(record(plan, tier, seed, bins, wd, 6, "esc_"), wd, plan)

    # ---------------- exhaustive small-format models (transcription -> spec)
    mc_results = []
    mc_viol = []
    if not replay:
        for mcj in plan.get("models", []):
            if tier == "quick" and mcj.get("tier") == "thorough":
                continue
            if mcj.get("kind") == "whole":
                ok, st, tr, log, dt = run_mc_whole(mcj["model"], mcj["cfg"], wd, JOBS, mcj.get("timeout", 2400))
            else:
                ok, st, tr, log, dt = run_mc(mcj["model"], mcj["cfg"], wd, mcj.get("slices", 16), mcj.get("timeout", 2400), mcj.get("env"))
            cov0 = []
            mc_results.append({"model": mcj["model"], "cfg": mcj["cfg"], "ok": ok, "states": st, "transitions": tr, "wall_s": round(dt, 1),
                               "what": mcj.get("what", "")})
            if not ok:
                lp = os.path.join(VERIF, "work", "replays", "%s-mc-%s.log" % (prop, mcj["cfg"].replace(".cfg", "")))
                open(lp, "w").write(log)
                mc_viol.append((mcj, lp))

    # ---------------- verdicts
    evaluations = 0
    skipped = 0
    undecided = collections.Counter()
    distinct = set()
    samples = []
    by_op = collections.defaultdict(lambda: [0, 0])     # operation -> [events in the domain, skipped as out of domain]
    own, other, tool = [], [], []
    for (f, j, res) in results:
        lines = open(f).read().split("\n")
        evaluations += res["stats"]["checked"]
        skipped += res["stats"]["skipped"]
        for u in res.get("undecided", []):
            undecided[u["what"]] += 1
        sk = set(res.get("skipped_lines", []))
        rs = operand_resolver()
        for idx, ln in enumerate(lines):
            if not ln.strip():
                continue
            ev = json.loads(ln)
            if ev["fam"] == "ctl":
                continue
            key = rs(ev)
            if ev["fam"] not in plan.get("trivial_fams", ["load"]):
                by_op[ev["op"]][1 if (idx + 1) in sk else 0] += 1
            if (idx + 1) in sk or ev["fam"] in plan.get("trivial_fams", ["load"]):
                continue
            distinct.add(hash(key))
            if len(samples) < 3 and ev["fam"] not in ("load",) and idx % 97 == 5:
                samples.append(ev)
        for d in res["devs"]:
            d["trace"] = f
            d["variant"] = j["variant"]
            if d["prop"] == "tool":
                tool.append(d)
            elif d["prop"] in plan.get("props", [prop]):
                own.append(d)
            else:
                other.append(d)
    if tool:
        raise ToolError("specification self-check failed: %s" % json.dumps(tool[:3]))

    viol_lines = []
    known_lines = []
    nrep = 0
    seen_known = set()
    seen_new = collections.Counter()
    for d in own:
        k = match_known(d, known)
        if k:
            if k["id"] not in seen_known:
                seen_known.add(k["id"])
                known_lines.append("KNOWN-FINDING: property=%s %s" % (prop, k["what"]))
            continue
        sig = (d["op"], d["clause"])
        seen_new[sig] += 1
        if seen_new[sig] > 3:
            continue  # at most three replay files per (operation, clause)
        lines = open(d["trace"]).read().split("\n")
        grp = group_of(lines, d["l"] - 1)
        nrep += 1
        rp = os.path.join(VERIF, "work", "replays", "%s-%d.ndjson" % (prop, nrep))
        with open(rp, "w") as fh:
            fh.write(json.dumps({"op": "group", "fam": "ctl", "seq": 0, "variant": d["variant"],
                                 "tag": "replay %s op=%s clause=%s sp=%s" % (prop, d["op"], d["clause"], d["sp"])}) + "\n")
            for ln in grp:
                if ln.strip() and '"op":"group"' not in ln:
                    fh.write(ln + "\n")
        viol_lines.append("VIOLATION property=%s replay=%s  (op=%s clause=%s sp=%s cfg=%s)" % (prop, rp, d["op"], d["clause"], d["sp"], d["cfg"]))
    for (mcj, lp) in mc_viol:
        viol_lines.append("VIOLATION property=%s replay=%s  (small-format model %s/%s: invariant violated, counterexample in the log)" % (prop, lp, mcj["model"], mcj["cfg"]))

    states = sum(m["states"] for m in mc_results) + (0 if mc_results else sum(r["states"] for (_, _, r) in results))
    trans = sum(m["transitions"] for m in mc_results) + (0 if mc_results else sum(r["states"] for (_, _, r) in results))
    level = plan["level"]
    cov = {
        "evaluations": evaluations,
        "distinct_nontrivial": len(distinct),
        "rule": plan["rule"],
        "samples": samples if samples else [{"note": "no call events sampled"}],
        "states": states,
        "transitions": trans,
        "traces_validated_against_impl": len(results),
        "skipped_out_of_domain": skipped,
        "undecided": dict(undecided),
        "model_drift": dict(drift),
        "escalated_after_drift": escalated,
        "models": mc_results,
        "exhaustive": False,
        "deviations_own": len(own),
        "deviations_other_properties": collections.Counter("%s:%s:%s" % (d["prop"], d["op"], d["clause"]) for d in other),
        "known_findings_seen": sorted(seen_known),
        "trace_families": sorted({j["family"] for (_, j, _) in results}),
        # non-vacuity: how many recorded calls of each operation were inside the property's domain (contract
        # evaluated) and how many were skipped as outside it
        "by_operation": {op: {"in_domain": v[0], "out_of_domain": v[1]} for op, v in sorted(by_op.items())},
    }
    ev = {
        "property_id": prop,
        "tier": "thorough" if tier == "thorough" else "quick",
        "seed": seed,
        "level": level,
        "coverage": cov,
        "assumptions": plan.get("assumptions", []) + [
            "TLC evaluates the TLA+ contracts faithfully; CommunityModules Json/IOUtils/FoldLeft",
            "the harness bit-slicing encoder (round-trip self-tested) and rustc/cargo",
        ],
        "wall_s": round(time.time() - t0, 1),
        "violations": len(viol_lines),
    }
    if not replay and not os.environ.get("VERIF_NO_EVIDENCE"):
        json.dump(ev, open(os.path.join(VERIF, "evidence", "%s.json" % prop), "w"), indent=1)
    for ln in known_lines:
        print(ln)
    if drift:
        print("MODEL-DRIFT: the implementation's words differ from the transcription spec/AlgArith.tla on %d events (%s); "
              "not a violation by itself, the small-format results no longer describe this code%s" % (
                  sum(drift.values()), dict(drift.most_common(6)), "; sampling was escalated x6" if escalated else ""))
    if other:
        c = collections.Counter("%s:%s:%s" % (d["prop"], d["op"], d["clause"]) for d in other)
        print("NOTE: deviations attributed to other properties (reported by their own checks): %s" % dict(c))
    for ln in viol_lines:
        print(ln)
    print("property=%s tier=%s events_checked=%d distinct=%d traces=%d models=%d wall=%.0fs" % (
        prop, tier, evaluations, len(distinct), len(results), len(mc_results), time.time() - t0))
    # disk: the thorough tier records tens of gigabytes; traces without a deviation are not needed any more
    # (replay files of deviations were copied to work/replays above).  VERIF_KEEP_TRACES=1 keeps everything.
    if tier == "thorough" and not os.environ.get("VERIF_KEEP_TRACES"):
        bad = {d["trace"] for d in own + other}
        for (f, j, res) in results:
            if f not in bad:
                for g in (f, f + ".out.json", f + ".tlc.log"):
                    try:
                        os.remove(g)
                    except OSError:
                        pass
    return 1 if viol_lines else 0


def merge_groups(files, out):
    """interleave group-by-group the traces of the same seeded corpus run under several build
    configurations (pure text manipulation)"""
    groups = []
    for f in files:
        gs, cur = [], []
        for ln in open(f):
            if '"op":"group"' in ln:
                if cur:
                    gs.append(cur)
                cur = []
            else:
                cur.append(ln)
        if cur:
            gs.append(cur)
        groups.append(gs)
    with open(out, "w") as fh:
        n = max(len(g) for g in groups)
        for i in range(n):
            fh.write('{"op":"group","fam":"ctl","seq":0,"tag":"merged"}\n')
            for g in groups:
                if i < len(g):
                    for ln in g[i]:
                        fh.write(ln)


if __name__ == "__main__":
    sys.exit(main())
