#!/usr/bin/env python3
"""Self-tests of the machinery (decide no property): the specification's IEEE module at P=53
must reproduce host binary64 arithmetic bit-for-bit on a directed corpus."""
import os, sys, json, subprocess
sys.path.insert(0, os.path.dirname(os.path.abspath(__file__)))
import check
wd = os.path.join(check.VERIF, "work", "selftest")
os.makedirs(wd, exist_ok=True)
b = os.path.join(check.HARN, "target", "std", "release", "tfh")
tr = os.path.join(wd, "ieee.ndjson")
subprocess.check_call([b, "gen", "ieee", "150", tr], env=dict(os.environ, VERIF_SEED="7"), stdout=subprocess.DEVNULL)
res = check.validate_trace(tr, wd, 600)
bad = [d for d in res["devs"]]
if bad:
    print("SELFTEST FAILED", json.dumps(bad[:5]))
    sys.exit(1)
print("selftest ok: %d host-arithmetic events reproduced by the TLA+ IEEE module" % res["stats"]["checked"])

# the elementary-function enclosures against 250-bit literals (generated once with mpmath; they test the oracle only)
rc, log, dt = check.tlc(["-workers", "1", "-config", "SelfTest_Elementary.cfg", "SelfTest_Elementary.tla"], {"XMX": "3g"}, os.path.join(wd, "md_elem"), 600)
if "No error has been found" not in log or "FAIL" in log:
    print("SELFTEST FAILED (Elementary)\n" + log[-2000:])
    sys.exit(1)
print("selftest ok: enclosures of exp, expm1, sin, cos, sqrt, pi, ln 2, ln 10 contain the reference literals and are tight")

# negative control of leg A: the PINNED way of splitting x = y/2 + z in exp (y = round(2*hi)) must violate the
# |z.hi| <= 1/4 assertion somewhere in a small format (this is defect 433c96f, found by modelling)
rc, log, dt = check.tlc(["-workers", "1", "-config", "MC_P4_expflow_old.cfg", "MC_Small.tla"],
                        {"XMX": "3g", "VERIF_SLICE": "0", "VERIF_NSLICES": "4"}, os.path.join(wd, "md_neg"), 600)
if "Invariant NoBad is violated" not in log:
    print("SELFTEST FAILED: the small-format model no longer finds the pinned exp reduction defect\n" + log[-1500:])
    sys.exit(1)
print("selftest ok: MC_Small finds the pinned exp-reduction assertion failure (negative control)")

# second negative control: the PINNED exp2 scaling (each word scaled separately, no renormalisation) must produce
# an overlapping pair somewhere just above the subnormal range (defect fixed by c0e5c2b, found by modelling)
rc, log, dt = check.tlc(["-workers", "1", "-config", "MC_P4_exp2scale_old.cfg", "MC_Small.tla"],
                        {"XMX": "3g", "VERIF_SLICE": "0", "VERIF_NSLICES": "1"}, os.path.join(wd, "md_neg2"), 600)
if "Invariant NoBad is violated" not in log or "scaled_pair_not_normalised" not in log:
    print("SELFTEST FAILED: the small-format model no longer finds the pinned exp2 scaling defect\n" + log[-1500:])
    sys.exit(1)
print("selftest ok: MC_Small finds the pinned exp2 scaling defect (negative control)")
