#!/bin/bash
# run every registered quick (or thorough: runall.sh thorough) check on the current tree, one after the other
tier=${1:-quick}
cd "$(dirname "$0")/.."
rc=0
for p in C01 C02 C03 C04 C05 C06 C07 C08 C09 C10 C11 C12 C13 C14 C15 C16 C17 C18 C19 C20; do
  ./tools/check.py $p --tier $tier | tail -1 | cut -c1-200
  r=${PIPESTATUS[0]}; [ $r -ne 0 ] && { echo "   -> $p exit $r"; rc=1; }
done
exit $rc
