"""Per-property plan: which traces are recorded from the real code (generator family, build
variant, size per tier), which exhaustive small-format models are checked, and the evidence
wording.  n = (quick, thorough) generator size per slice; slices = (quick, thorough)."""

def T(family, n, slices, variant="std", env=None):
    return {"family": family, "variant": variant, "n": n, "slices": slices, "env": env or {}}

RULE_LATTICE = ("; lattice_* = the EXHAUSTIVE product of structural operand classes at binary64 (the image of the small-format models' operand sets: "
                "10 significand shapes x every low-word class beside them (zeros, tie, quarter-ulp limit and their neighbours, short and full-width words "
                "1-3 binades below, far below, least subnormal / least normal) for both operands x the ulp offsets and exponent differences that matter "
                "for the operation x spellings round-robin), cut into n slices dealt round-robin of which this tier validates the stated number")
RULE_SWEEP = ("; exponent_sweep = EVERY exponent of the format for the operations that manipulate exponents or claim exactness at powers of two: exp2 at every "
              "integer and half-integer, log2 / ln / sqrt / cbrt / recip / to_f32 of every power of two, a generic value times and over every power of two (complete in both tiers)")
RULE_LATTICE_FN = ("; lattice_exp|log|trig|atrig|hyp = every function of the family on EVERY structural value (10 significand shapes x every "
                   "low-word class beside them) at the exponents where its behaviour changes, both signs where the domain allows: special high words "
                   "(1, powers of two, 1.5, all ones) WITH every kind of low word; cut into n slices of which the tier validates the stated number")
RULE_TRACE = ("seeded generators (directed operand classes: ties, powers of two, cancellation at every depth, "
              "subnormal low words, far-apart exponents; plus random) drive the real crate; every call is one "
              "trace event validated by TLC against the contract in exact limb arithmetic. distinct = distinct "
              "(operation, operand words) tuples; non-trivial = inside the domain stated by the property "
              "(out-of-domain events are skipped, loads of operands are not counted)")

def MC(cfg, what, tier="quick", slices=16):
    return {"model": "MC_Small.tla", "cfg": cfg, "what": what, "tier": tier, "slices": slices}

W_MACHINE = "the library as a state machine over a small format: ALL accumulator values reachable by arbitrary chains of the transcribed +, -, *, /, %, reversed forms, f64 operands, neg, abs, floor, ceil, round, trunc, fract, recip from the seeds (inside a magnitude window) are normalised, and every transition satisfies the contract of its operation"
def MCW(cfg, what, tier="quick"):
    return {"model": "MC_Machine.tla", "cfg": cfg, "what": what, "tier": tier, "kind": "whole"}

W_NEW = "2Sum/2Prod/new_div transcriptions on every word pair (a.hi in one binade x all words of a full small format incl. subnormals, zeros)"
W_ADD = "Alg. 4/6 transcriptions (operator, reversed-operand and assignment copies) on all valid pairs: contract clauses, copies agree, commutativity, a-b == a+(-b), antisymmetry up to zero sign"
W_MUL = "Alg. 9/12 transcriptions on all valid pairs: contract clauses incl. unit/power-of-two exactness, copies agree, (-a)b == -(ab) up to zero sign"
W_DIV = "Alg. 15 and the three hand-copied long divisions + renorm3 on all valid pairs: contract clauses, copies agree, recip"
W_REM = "rem on top of div/trunc/mul/sub transcriptions on all valid pairs, with TwoFloat and f64 divisors and f64 dividends (the three bodies of the source): truncated-quotient contract"
W_NOV = "the exponent-field algorithm of no_overlap against Definition 1.4 on EVERY pair of words of the format (zeros, subnormals, infinities, NaN)"
W_FRAC = "the case splits of floor/ceil/trunc/round/fract against the exact functions on every valid value in a window wide enough for the fraction to live in hi, in lo, in both, nowhere"
W_WIDE = "the wide-integer From macro (with the renormalisation fix) on EVERY integer of an unsigned and a signed type wider than 2P bits: valid, exact when <= 2P significant bits, else within 2^-2P"
W_EXPFLOW = "the exp reduction x = y/2 + z with the real double-double operations (y = round of the full value, z = x - y/2): the |z.hi| <= 1/4 assertion, the table index |n| <= 32, the Taylor argument bound and exactness of the split, for EVERY valid x of the window (both signs)"
W_QUAD = "quadrant(): quotient round(x / (pi/2)) is an integer, `quotient % 4.0` -> i8 never reaches the NAN arm and equals q mod 4, for every valid x of the window (both signs)"
W_ATAN = "atan's interval dispatch k = 4|x| + 1/4 computed in double-double arithmetic selects exactly the interval of the exact |x| (breakpoints 7/16, 11/16, 19/16, 39/16) for every valid x of the window"
W_POWF = "powf's integrality test and parity selection for a negative base (parity from the low word when it has an integer part) equals the parity of the exact exponent for every valid y of the window"
W_EXP2SCALE = "exp2's final scaling: mul_pow2 (transcribed, thresholds of the format) applied to both words of EVERY normalised pair in [1/2, 2) for EVERY k the reduction can produce (least subnormal exponent .. EMAX), followed by the renormalising Fast2Sum: result normalised, within one subnormal quantum of r1 * 2^k, exact whenever both scaled words are representable (so exp2(k) = 2^k)"
W_EXP2FLOW = "exp2's range switch and reduction x = k + t (k = round(x.hi)) for EVERY valid x of the window: k stays inside the single-step range of mul_pow2, the reduction is exact, |t| <= 1/2 + |x.lo|"
W_SQRT = "sqrt (reciprocal square root, one multiplication, one double-word correction, 2Sum) transcribed, on EVERY valid positive x of three binades (even and odd exponents): normalised, within 32 * 2^-2P relative (the constant stated at binary64), negative argument invalid"
W_CBRT = "cbrt's two Newton steps in double-double arithmetic from EVERY seed word within one ulp of the true cube root of the high word (libm::cbrt is only faithful, so the seed is a nondeterministic choice of the model), on every valid x of three binades (all exponent residues mod 3), both signs: normalised, same sign, within 16 * 2^-2P relative"
W_POWI = "powi's square-and-multiply loop (with the *= copies of Alg. 12) for n = 2..12 and both signs of EVERY valid x of a binade: normalised, within (6n + 16) 2^-2P of the exact x^n, and the reciprocal used for negative exponents within the same bound"
W_ASIN = "asin's domain test and branch selection (|x| > 1 -> NAN, |x| <= 1/2 direct, else complementary) equals the selection on the exact value, and the complementary argument sqrt((1 - |x|)/2) computed with the real double-double operations is valid, inside [0, 1/2] and within 80 * 2^-2P of the intended value, for every valid x of the window (both signs)"
W_TOINT = "TryFrom<TwoFloat> for an unsigned and a signed integer type (the wide macro: TwoFloat bounds (MAX as f64, -1.0), three ways of assembling the integer from the two words with saturating casts; the narrow macro: f64 bounds and hi as T) transcribed, on EVERY valid x of a window reaching beyond the types' ranges, both signs: Ok(trunc(x)) exactly when it is in range, no intermediate integer overflow"
W_CMP = "lexicographic comparison of normalised pairs == comparison of exact values, abs, on all valid pairs of a window"

PLAN = {
    "C02": {
        "level": "model_checking",
        "rule": RULE_TRACE + RULE_LATTICE,
        "models": [MC("MC_P3_new.cfg", W_NEW), MC("MC_P4_new.cfg", W_NEW)],
        "traces": [T("arith_new", (250, 4000), (12, 14)), T("lattice_new", (8, 14), (8, 14))],
    },
    "C03": {
        "level": "exploration",
        "rule": RULE_TRACE + RULE_LATTICE,
        "models": [MC("MC_P3_addsub.cfg", W_ADD, "thorough")],
        "traces": [T("arith_add", (300, 40000), (12, 14)), T("lattice_add", (2048, 56), (6, 14))],
    },
    "C04": {
        "level": "exploration",
        "rule": RULE_TRACE + RULE_LATTICE + RULE_SWEEP,
        "models": [MC("MC_P3_mul.cfg", W_MUL), MC("MC_P4_mul.cfg", W_MUL, "thorough")],
        "traces": [T("arith_mul", (400, 40000), (12, 14)), T("lattice_mul", (4096, 112), (6, 14)), T("exponent_sweep", (8, 14), (8, 14))],
    },
    "C05": {
        "level": "exploration",
        "rule": RULE_TRACE + RULE_LATTICE + RULE_SWEEP,
        "models": [MC("MC_P3_div.cfg", W_DIV, "thorough")],
        "traces": [T("arith_div", (350, 30000), (12, 14)), T("lattice_div", (8192, 448), (6, 14)), T("exponent_sweep", (8, 14), (8, 14))],
    },
    "C19": {
        "level": "exploration",
        "rule": RULE_TRACE + RULE_LATTICE,
        "models": [MC("MC_P3_rem.cfg", W_REM), MC("MC_P3_euclid.cfg", "div_euclid / rem_euclid / min / max transcriptions on all valid pairs (both signs of the dividend): floor/ceil quotient, remainder bound, exactness on integers", "thorough")],
        "traces": [T("arith_rem", (300, 20000), (12, 14)), T("lattice_rem", (128, 56), (6, 14))],
    },
    "C06": {
        "level": "model_checking",
        "rule": RULE_TRACE + RULE_LATTICE,
        "models": [MC("MC_P3_cmp.cfg", W_CMP), MC("MC_P4_cmp.cfg", W_CMP, "thorough")],
        "traces": [T("cmp", (120, 15000), (12, 14)), T("lattice_cmp", (128, 14), (8, 14)), T("pow2_sweep", (8, 14), (8, 14))],
        "specgen": [{"gen": "compare", "variant": "std"}],
    },
    "C07": {
        "level": "model_checking",
        "rule": RULE_TRACE + "; grid07 = the complete structural grid of no_overlap at binary64: every exponent field of a (quick: every second one) x 7 significand classes x both signs x b at/just below/just above the half-ulp and quarter-ulp thresholds, zero, least subnormal, inf, NaN, both signs",
        "models": [MC("MC_P3_nov.cfg", W_NOV), MC("MC_P4_nov.cfg", W_NOV), MC("MC_P5_nov.cfg", W_NOV, "thorough")],
        "traces": [T("grid07", (32, 16), (16, 16)), T("rand07", (3000, 60000), (4, 14))],
    },
    "C08": {
        "level": "model_checking",
        "rule": RULE_TRACE + RULE_LATTICE,
        "models": [MC("MC_P3_frac.cfg", W_FRAC), MC("MC_P4_frac.cfg", W_FRAC, "thorough")],
        "traces": [T("frac", (500, 60000), (12, 14)), T("lattice_frac", (8, 14), (8, 14))],
    },
    "C09": {
        "level": "model_checking",
        "rule": RULE_TRACE + "; conv_small = From<i8|u8|i16|u16> and the round trip for every value of the type" + RULE_LATTICE + RULE_SWEEP,
        "models": [MC("MC_P3_wide.cfg", W_WIDE), MC("MC_P4_wide.cfg", W_WIDE), MC("MC_P3_toint_wide.cfg", W_TOINT, slices=8), MC("MC_P5_toint_narrow.cfg", W_TOINT),
                   MC("MC_P4_toint_wide.cfg", W_TOINT, "thorough")],
        "traces": [T("conv", (600, 50000), (10, 14)), T("conv_small", (1, 1), (4, 16)), T("lattice_un", (64, 14), (4, 14)), T("exponent_sweep", (8, 14), (8, 14))],
    },
    "C10": {
        "level": "model_checking",
        "rule": RULE_TRACE + "; each operand tuple is expanded into every spelling (4 reference/value forms, 2 assignment forms, 3 pairings, 5 operators, trait wrappers); the determinism memo of the specification demands identical words",
        "models": [MC("MC_P3_mul.cfg", W_MUL), MC("MC_P3_addsub.cfg", W_ADD, "thorough")],
        "traces": [T("spell", (40, 300), (12, 14))],
    },
    "C01": {
        "level": "model_checking",
        "rule": RULE_TRACE + "; prog = random programs of 50-200 calls over 8 registers with results fed back (the Normalised invariant is evaluated after every call); prog_elem = programs of 20-50 calls mixing arithmetic with every mathematical function, results fed back, with a directed block steering results one binade at a time through 2^-1074..2^-1000 and 2^990..2^1023 (validated with C01_ONLY=1: normalisation clause and determinism memo, the accuracy contracts are the business of C13-C18)" + RULE_LATTICE,
        "models": [MCW("MC_Machine_P3.cfg", W_MACHINE), MCW("MC_Machine_P4.cfg", W_MACHINE, "thorough"),
                   MC("MC_P3_wide.cfg", W_WIDE), MC("MC_P3_frac.cfg", W_FRAC), MC("MC_P3_new.cfg", W_NEW), MC("MC_P4_exp2scale.cfg", W_EXP2SCALE, slices=8),
                   MC("MC_P3_addsub.cfg", W_ADD, "thorough"), MC("MC_P3_div.cfg", W_DIV, "thorough"), MC("MC_P5_exp2scale.cfg", W_EXP2SCALE, "thorough")],
        "traces": [T("prog", (12, 1500), (8, 14)), T("arith_all", (100, 2000), (2, 6)), T("arith_new", (120, 2000), (4, 8)), T("conv", (300, 6000), (2, 6)), T("frac", (200, 4000), (2, 4)),
                   T("arith_add", (300, 8000), (6, 14)), T("arith_mul", (300, 8000), (4, 14)), T("arith_div", (250, 6000), (4, 14)), T("arith_rem", (200, 4000), (2, 8)),
                   T("roots", (150, 3000), (2, 6), env={"C01_ONLY": "1"}), T("powi", (100, 2000), (2, 6), env={"C01_ONLY": "1"}),
                   T("exps", (200, 4000), (2, 6), env={"C01_ONLY": "1"}), T("logs", (150, 3000), (2, 6), env={"C01_ONLY": "1"}),
                   T("trig", (150, 3000), (2, 6), env={"C01_ONLY": "1"}), T("atrig", (150, 3000), (2, 6), env={"C01_ONLY": "1"}),
                   T("hyp", (150, 3000), (2, 6), env={"C01_ONLY": "1"}), T("angles", (150, 3000), (1, 4), env={"C01_ONLY": "1"}),
                   T("grid07", (64, 16), (4, 16)),
                   T("prog_elem", (150, 5000), (8, 14), env={"C01_ONLY": "1"}),
                   T("lattice_add", (4096, 112), (2, 14)), T("lattice_mul", (8192, 224), (2, 14)), T("lattice_div", (16384, 224), (2, 14)), T("lattice_un", (64, 14), (4, 14)), T("exp_nodes", (4, 14), (4, 14), env={"C01_ONLY": "1"})],
    },
    "C11": {
        "level": "exploration",
        "rule": RULE_TRACE + "; the same seeded corpus is run by two builds of the harness (default features / --no-default-features) and the two traces are interleaved group by group: the determinism memo demands identical words across configurations; fma events are checked against the exact x*y+z",
        "traces": [T("fma", (1500, 40000), (4, 8), "std"), T("fma", (1500, 40000), (4, 8), "nostd"),
                   T("arith_all", (80, 2000), (4, 8), "std"), T("arith_all", (80, 2000), (4, 8), "nostd"),
                   T("arith_new", (150, 3000), (4, 8), "std"), T("arith_new", (150, 3000), (4, 8), "nostd"),
                   T("elem_all", (2500, 8000), (12, 14), "std"), T("elem_all", (2500, 8000), (12, 14), "nostd"),
                   T("frac", (100, 2000), (2, 4), "std"), T("frac", (100, 2000), (2, 4), "nostd"),
                   T("arith_rem", (150, 3000), (4, 8), "std"), T("arith_rem", (150, 3000), (4, 8), "nostd"),
                   T("exp_nodes", (8, 14), (8, 14), "std"), T("exp_nodes", (8, 14), (8, 14), "nostd"),
                   T("arith_div", (100, 2000), (2, 6), "std"), T("arith_div", (100, 2000), (2, 6), "nostd"),
                   T("arith_mul", (100, 2000), (2, 6), "std"), T("arith_mul", (100, 2000), (2, 6), "nostd"),
                   T("arith_add", (100, 2000), (2, 6), "std"), T("arith_add", (100, 2000), (2, 6), "nostd"),
                   T("conv", (150, 3000), (2, 4), "std"), T("conv", (150, 3000), (2, 4), "nostd")],
        "trace_env": {"MEMO_ONLY": "1"},
        "merge": [{"family": "arith_all", "variants": ["std", "nostd"]}, {"family": "arith_new", "variants": ["std", "nostd"]},
                  {"family": "elem_all", "variants": ["std", "nostd"]}, {"family": "frac", "variants": ["std", "nostd"]},
                  {"family": "conv", "variants": ["std", "nostd"]}, {"family": "fma", "variants": ["std", "nostd"]},
                  {"family": "arith_rem", "variants": ["std", "nostd"]}, {"family": "exp_nodes", "variants": ["std", "nostd"]}, {"family": "arith_div", "variants": ["std", "nostd"]},
                  {"family": "arith_mul", "variants": ["std", "nostd"]}, {"family": "arith_add", "variants": ["std", "nostd"]}],
    },
    "C12": {
        "level": "model_checking",
        "rule": RULE_TRACE + "; the 19 constants + 7 associated constants are a finite set checked completely on every run: each is compared with the correctly rounded double-double of a rigorous ball enclosure (pi by Machin, ln 2 / ln 10 by atanh series, e by Taylor, roots and reciprocals by verified long division / integer square root, all in TLA+)" + RULE_LATTICE_FN,
        "traces": [T("angles", (250, 6000), (12, 14)), T("lattice_ang", (8, 14), (8, 14))],
    },
    "C13": {
        "level": "exploration",
        "rule": RULE_TRACE + "; sqrt/cbrt/hypot are decided by exact dyadic inequalities on r^2, r^3; powi against a ball enclosure of x^|n| by binary powering" + RULE_LATTICE_FN + RULE_SWEEP,
        "models": [MC("MC_P4_sqrt.cfg", W_SQRT, slices=8), MC("MC_P3_powi.cfg", W_POWI, slices=8), MC("MC_P3_cbrt.cfg", W_CBRT, slices=8), MC("MC_P4_cbrt.cfg", W_CBRT, "thorough"), MC("MC_P5_cbrt.cfg", W_CBRT, "thorough"), MC("MC_P4_powi.cfg", W_POWI, "thorough"),
                   MC("MC_P5_sqrt.cfg", W_SQRT, "thorough"), MC("MC_P5_powi.cfg", W_POWI, "thorough")],
        "traces": [T("roots", (200, 4000), (8, 14)), T("powi", (120, 2500), (6, 14)), T("lattice_pow", (256, 14), (8, 14)), T("exponent_sweep", (8, 14), (8, 14))],
    },
    "C14": {
        "level": "exploration",
        "rule": RULE_TRACE + "; exp/exp2/exp_m1/powf against rigorous ball enclosures (Taylor series with explicit remainder, argument reduction with an enclosure of ln 2) computed in TLA+; stratified over every entry of the exp(n/128)-1, exp(1/2)^n, exp(16)^n tables and both sides of each range switch" + "; exp_nodes = exp (and a sample of sinh, cosh, tanh, exp_m1) at the exact NODES of the lookup tables: x = y/2 for every integer y the reduction can produce, x = n/128 for every entry of the exp(n/128)-1 table, every exp(16)^a entry x every n/128, with a zero and with tiny low words: each table entry is then used bare or in a single product (complete in both tiers)" + RULE_LATTICE_FN + RULE_SWEEP,
        "models": [MC("MC_P4_expflow.cfg", W_EXPFLOW), MC("MC_P4_powfflow.cfg", W_POWF), MC("MC_P4_exp2scale.cfg", W_EXP2SCALE, slices=8), MC("MC_P4_exp2flow.cfg", W_EXP2FLOW, slices=8),
                   MC("MC_P5_expflow.cfg", W_EXPFLOW, "thorough"), MC("MC_P5_powfflow.cfg", W_POWF, "thorough"), MC("MC_P5_exp2scale.cfg", W_EXP2SCALE, "thorough"), MC("MC_P5_exp2flow.cfg", W_EXP2FLOW, "thorough")],
        "traces": [T("exps", (250, 5000), (14, 14)), T("exp_nodes", (14, 14), (14, 14)), T("lattice_exp", (64, 14), (8, 14)), T("exponent_sweep", (8, 14), (8, 14))],
    },
    "C15": {
        "level": "exploration",
        "rule": RULE_TRACE + "; logarithms are enclosed by one or two rigorous Newton steps ln x = h + ln(1 + (x - e^h)/e^h) from the claimed result as hint, in ball arithmetic" + RULE_LATTICE_FN + RULE_SWEEP,
        "traces": [T("logs", (150, 3000), (14, 14)), T("lattice_log", (64, 14), (8, 14)), T("exponent_sweep", (8, 14), (8, 14))],
    },
    "C16": {
        "level": "exploration",
        "rule": RULE_TRACE + "; sin/cos against ball enclosures (reduction with an enclosure of pi/2, Taylor series with remainder), tan cross-multiplied by cos^2" + RULE_LATTICE_FN,
        "models": [MC("MC_P4_quadrant.cfg", W_QUAD), MC("MC_P5_quadrant.cfg", W_QUAD, "thorough")],
        "traces": [T("trig", (180, 3500), (14, 14)), T("lattice_trig", (64, 14), (8, 14))],
    },
    "C17": {
        "level": "exploration",
        "rule": RULE_TRACE + "; inverse functions are checked by monotone inversion through enclosures of sin/cos at r +- tolerance, with the branch/axis conventions as exact clauses" + RULE_LATTICE_FN,
        "models": [MC("MC_P4_atanflow.cfg", W_ATAN), MC("MC_P4_asinflow.cfg", W_ASIN, slices=8), MC("MC_P5_atanflow.cfg", W_ATAN, "thorough"), MC("MC_P5_asinflow.cfg", W_ASIN, "thorough")],
        "traces": [T("atrig", (160, 3000), (14, 14)), T("lattice_atrig", (64, 14), (8, 14))],
    },
    "C18": {
        "level": "exploration",
        "rule": RULE_TRACE + "; sinh/cosh/tanh against enclosures of exp; asinh/acosh/atanh by monotone inversion through exp(r +- tolerance); (x, -x) pairs at every magnitude" + RULE_LATTICE_FN,
        "traces": [T("hyp", (110, 2000), (14, 14)), T("lattice_hyp", (64, 14), (8, 14))],
    },
    "C20": {
        "level": "model_checking",
        "rule": RULE_TRACE + "; fmt = 3 traits x {plain, +} x {no precision, p in 0,1,5,17,40} on values with negative-zero / subnormal low words and extreme exponents, output tokenised by the specification; serde = every well-formed and malformed shape (sequence / map in both field orders, missing, duplicate, unknown field, short sequence) x arbitrary (hi, lo) words incl. overlapping and non-finite ones, through serde's value deserializers and serde_json",
        "traces": [T("fmt", (150, 4000), (6, 14)), T("serde", (200, 5000), (8, 14), "serde")],
        "specgen": [{"gen": "serde", "variant": "serde"}],
    },
}
