"""Per-property plan: which traces are recorded from the real code (generator family, build
variant, size per tier), which exhaustive small-format models are checked, and the evidence
wording.  n = (quick, thorough) generator size per slice; slices = (quick, thorough)."""

def T(family, n, slices, variant="std"):
    return {"family": family, "variant": variant, "n": n, "slices": slices}

RULE_TRACE = ("seeded generators (directed operand classes: ties, powers of two, cancellation at every depth, "
              "subnormal low words, far-apart exponents; plus random) drive the real crate; every call is one "
              "trace event validated by TLC against the contract in exact limb arithmetic. distinct = distinct "
              "(operation, operand words) tuples; non-trivial = inside the domain stated by the property "
              "(out-of-domain events are skipped, loads of operands are not counted)")

PLAN = {
    "C02": {
        "level": "model_checking",
        "rule": RULE_TRACE,
        "traces": [T("arith_new", (250, 4000), (12, 14))],
        "models": [],
    },
    "C03": {
        "level": "exploration",
        "rule": RULE_TRACE,
        "traces": [T("arith_add", (300, 6000), (12, 14))],
    },
    "C04": {
        "level": "exploration",
        "rule": RULE_TRACE,
        "traces": [T("arith_mul", (400, 8000), (12, 14))],
    },
    "C05": {
        "level": "exploration",
        "rule": RULE_TRACE,
        "traces": [T("arith_div", (350, 7000), (12, 14))],
    },
    "C19": {
        "level": "exploration",
        "rule": RULE_TRACE,
        "traces": [T("arith_rem", (300, 6000), (12, 14))],
    },
}
