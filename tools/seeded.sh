#!/bin/bash
# usage: seeded.sh <worktree-id> <property> [extra properties...]
# Confirms a seeded change produced in /tmp/wt/<id> (suite passes with it, demo fails with it and
# passes without it), stores it under /verif/seeded/<id>/, then applies it to /repo, runs the quick
# check(s), and restores /repo.
set -u
id=$1; shift
props="$@"
wt=/tmp/wt/$id
out=/verif/seeded/$id
mkdir -p $out
git -C $wt diff -- src Cargo.toml > $out/patch.diff
demo=$(ls $wt/tests/demo_*.rs | head -1)
cp $demo $out/
dn=$(basename $demo .rs)
cd $wt
echo "== suite with change"; mv $demo /tmp/wt/$dn.rs.aside
cargo test --offline 2>&1 | grep -E "^test result|FAILED|panicked" > $out/suite_with_change.txt; mv /tmp/wt/$dn.rs.aside $demo
suite_ok=$(grep -c "test result: ok" $out/suite_with_change.txt); suite_bad=$(grep -vc "test result: ok" $out/suite_with_change.txt)
echo "   ok-lines=$suite_ok other-lines=$suite_bad"
echo "== demo with change"; cargo test --offline ${DEMO_FLAGS:-} --test $dn 2>&1 | grep -E "^test result" > $out/demo_with_change.txt; cat $out/demo_with_change.txt
# (no git stash here: refs/stash is shared by every worktree of the repository, and concurrent agents use it)
git checkout -q -- src Cargo.toml
echo "== demo without change"; cargo test --offline ${DEMO_FLAGS:-} --test $dn 2>&1 | grep -E "^test result" > $out/demo_without_change.txt; cat $out/demo_without_change.txt
git apply $out/patch.diff
cd /verif
# several seeded.sh may confirm their worktrees in parallel; the part that touches /repo is serialised
exec 9>/tmp/wt/repo.lock; flock 9
if ! git -C /repo apply --check $out/patch.diff 2>/dev/null; then echo "PATCH DOES NOT APPLY to /repo"; exit 3; fi
git -C /repo apply $out/patch.diff
: > $out/checks.txt
for p in $props; do
  echo "== check $p on seeded tree"
  VERIF_NO_EVIDENCE=1 ./tools/check.py $p --tier quick > $out/check_$p.txt 2>&1; rc=$?
  echo "$p exit=$rc $(grep -c '^VIOLATION' $out/check_$p.txt) violations" | tee -a $out/checks.txt
  grep -E "^VIOLATION|^TOOL-ERROR" $out/check_$p.txt | head -3 | cut -c1-220
done
git -C /repo checkout -- .
git -C /repo status --short | head -3
