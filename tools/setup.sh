#!/bin/sh
# Build the conformance harness (three feature configurations of twofloat) from files on disk
# only, and run the machinery's own self-tests (encoder round trip; the specification's IEEE
# module against host binary64 arithmetic).
set -e
cd "$(dirname "$0")/../harness"
export CARGO_NET_OFFLINE=true
cargo build --release --offline --no-default-features --features std --target-dir target/std
cargo build --release --offline --no-default-features --target-dir target/nostd
cargo build --release --offline --no-default-features --features std,serde --target-dir target/serde
./target/std/release/tfh enc-selftest
cd ..
python3 tools/selftest.py
