//! Encoding of machine values into the trace format read by the TLA+ trace specification.
//! This layer only slices bits; it performs no arithmetic on behalf of the oracle.
//!
//! f64  -> {"k":"f"|"i"|"n","s":0|1,"e":<exponent of lsb>,"m":[15-bit limbs, little endian]}
//! ints -> {"s":0|1,"m":[limbs]}

pub const W: u32 = 15;

pub fn limbs(mut v: u128) -> String {
    let mut s = String::from("[");
    let mut first = true;
    while v != 0 {
        if !first {
            s.push(',');
        }
        first = false;
        s.push_str(&format!("{}", (v & ((1 << W) - 1)) as u32));
        v >>= W;
    }
    s.push(']');
    s
}

pub fn word(x: f64) -> String {
    let bits = x.to_bits();
    let sign = (bits >> 63) as u32;
    let ef = ((bits >> 52) & 0x7ff) as i32;
    let frac = bits & ((1u64 << 52) - 1);
    if ef == 0x7ff {
        if frac == 0 {
            format!("{{\"k\":\"i\",\"s\":{},\"e\":0,\"m\":[]}}", sign)
        } else {
            // all NaNs are one class: sign and payload are not recorded
            "{\"k\":\"n\",\"s\":0,\"e\":0,\"m\":[]}".to_string()
        }
    } else if ef == 0 {
        format!("{{\"k\":\"f\",\"s\":{},\"e\":-1074,\"m\":{}}}", sign, limbs(frac as u128))
    } else {
        format!(
            "{{\"k\":\"f\",\"s\":{},\"e\":{},\"m\":{}}}",
            sign,
            ef - 1075,
            limbs((frac | (1u64 << 52)) as u128)
        )
    }
}

/// binary32 word in the same shape (P = 24, quantum of subnormals 2^-149)
pub fn word32(x: f32) -> String {
    let bits = x.to_bits();
    let sign = bits >> 31;
    let ef = ((bits >> 23) & 0xff) as i32;
    let frac = bits & ((1u32 << 23) - 1);
    if ef == 0xff {
        if frac == 0 {
            format!("{{\"k\":\"i\",\"s\":{},\"e\":0,\"m\":[]}}", sign)
        } else {
            "{\"k\":\"n\",\"s\":0,\"e\":0,\"m\":[]}".to_string()
        }
    } else if ef == 0 {
        format!("{{\"k\":\"f\",\"s\":{},\"e\":-149,\"m\":{}}}", sign, limbs(frac as u128))
    } else {
        format!(
            "{{\"k\":\"f\",\"s\":{},\"e\":{},\"m\":{}}}",
            sign,
            ef - 150,
            limbs((frac | (1u32 << 23)) as u128)
        )
    }
}

pub fn int(neg: bool, mag: u128) -> String {
    format!("{{\"s\":{},\"m\":{}}}", neg as u32, limbs(mag))
}

pub fn int_i128(v: i128) -> String {
    int(v < 0, v.unsigned_abs())
}

pub fn jstr(s: &str) -> String {
    let mut o = String::from("\"");
    for c in s.chars() {
        match c {
            '"' => o.push_str("\\\""),
            '\\' => o.push_str("\\\\"),
            c if (c as u32) < 0x20 => o.push_str(&format!("\\u{:04x}", c as u32)),
            c => o.push(c),
        }
    }
    o.push('"');
    o
}

/// a string as an array of one-character strings (so that the spec can lex it)
pub fn chars(s: &str) -> String {
    let v: Vec<String> = s.chars().map(|c| jstr(&c.to_string())).collect();
    format!("[{}]", v.join(","))
}

// ---------------------------------------------------------------- decoding (replay files)

pub fn limbs_to_u128(v: &serde_json::Value) -> u128 {
    let mut r: u128 = 0;
    if let Some(a) = v.as_array() {
        for (i, l) in a.iter().enumerate() {
            r |= (l.as_u64().unwrap() as u128) << (W as usize * i);
        }
    }
    r
}

pub fn word_to_f64(v: &serde_json::Value) -> f64 {
    let k = v["k"].as_str().unwrap();
    let s = v["s"].as_u64().unwrap();
    match k {
        "n" => f64::NAN,
        "i" => {
            if s == 1 {
                f64::NEG_INFINITY
            } else {
                f64::INFINITY
            }
        }
        _ => {
            let e = v["e"].as_i64().unwrap();
            let m = limbs_to_u128(&v["m"]) as u64;
            let bits = if m >> 52 == 0 {
                m
            } else {
                (((e + 1075) as u64) << 52) | (m & ((1u64 << 52) - 1))
            };
            f64::from_bits(bits | (s << 63))
        }
    }
}
