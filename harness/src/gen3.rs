//! Generator families for the elementary functions (C12-C18).
use crate::gen::{load_valid, SP_TT};
use crate::gen2::consts;
use crate::mach::{A, M};
use crate::rng::*;

const SP2: [&str; 2] = ["inh", "Float"];

fn sgn(r: &mut Rng) -> f64 {
    if r.coin() {
        1.0
    } else {
        -1.0
    }
}

/// load the double-double nearest to `hi` with a random admissible low word
fn load_near(m: &mut M, r: &mut Rng, d: usize, hi: f64) {
    loop {
        let lo = match r.below(4) {
            0 => 0.0,
            _ => lo_candidate(r, hi),
        };
        if m.load(d, hi, lo) {
            return;
        }
    }
}

/// load hi + delta exactly (delta small), through the error-free constructor
fn load_sum(m: &mut M, d: usize, hi: f64, delta: f64) {
    m.call("arith", "new_add", "inh", Some(d), &[A::F(hi), A::F(delta)]);
}

/// arguments of small magnitude, one binade at a time over the range in which the behaviour of a
/// double-double algorithm changes (terms of order x^2, x^3 cross the 2^-106 resolution)
fn tiny_arg(r: &mut Rng) -> f64 {
    // round-robin over the binades (starting at a seed-dependent offset) so that every binade is visited
    let t = r.tick();
    if t == 1 {
        r.ticks += r.below(118);
    }
    let e = -1 - (r.ticks % 118) as i32;
    log_uniform(r, e, e + 1)
}

fn log_uniform(r: &mut Rng, emin: i32, emax: i32) -> f64 {
    let e = r.range(emin as i64, emax as i64 - 1) as i32;
    f64::from_bits((((e + 1023) as u64) << 52) | (r.next() & ((1u64 << 52) - 1)))
}

// ------------------------------------------------------------------------------------ C13
pub fn roots(m: &mut M, r: &mut Rng, n: u64) {
    for i in 0..n {
        m.group("roots");
        // sqrt / cbrt
        match r.below(8) {
            0 => {
                // perfect squares / cubes +- one ulp of the low word
                let k = (r.below(1 << 26) + 1) as f64;
                let p = if r.coin() { k * k } else { k * k * k };
                let e = pow2(2 * (r.range(-100, 100) as i32) * 3);
                load_sum(m, 0, p * e, *r.pick(&[0.0, 1.0, -1.0]) * p * e * pow2(-105));
            }
            1 => {
                let z = if r.coin() { 0.0 } else { -0.0 };
                m.load(0, z, if r.coin() { 0.0 } else { -0.0 });
            }
            2 => {
                let h = pow2(r.range(-899, 899) as i32);
                load_near(m, r, 0, h);
            }
            _ => load_valid(m, r, 0, -899, 899),
        }
        // positive copy for sqrt
        m.call("base", "abs", "inh", Some(1), &[A::R(0)]);
        m.call("elem", "sqrt", *r.pick(&SP2), Some(2), &[A::R(1)]);
        m.call("elem", "cbrt", *r.pick(&SP2), Some(3), &[A::R(0)]);
        m.call("elem", "cbrt", "inh", Some(3), &[A::R(1)]);
        if i % 6 == 0 {
            m.call("elem", "sqrt", "inh", Some(2), &[A::R(0)]); // possibly negative
        }
        // hypot
        let e = r.range(-399, 398) as i32;
        load_valid(m, r, 4, e, e + 1);
        match r.below(4) {
            0 => {
                let x = m.tf(4);
                m.load(5, x.hi(), x.lo());
            }
            1 => load_valid(m, r, 5, (e - 120).max(-399), (e - 50).max(-398)),
            _ => load_valid(m, r, 5, (e - 3).max(-399), (e + 3).min(399)),
        }
        m.call("elem", "hypot", *r.pick(&SP2), Some(6), &[A::R(4), A::R(5)]);
        m.call("elem", "hypot", "inh", Some(6), &[A::R(5), A::R(4)]);
        if i % 4 == 0 {
            neighbour_replay2(m, r, "hypot", 4, 5, &[]);
        }
    }
}

pub fn powi(m: &mut M, r: &mut Rng, n: u64) {
    for i in 0..n {
        m.group("powi");
        // exponent: log-uniform in |n| with the extremes always present
        let k: i64 = match i % 12 {
            0 => i32::MIN as i64,
            1 => i32::MAX as i64,
            2 => 0,
            3 => 1,
            4 => -1,
            5 => 2,
            _ => {
                let b = r.range(1, 31);
                let v = (r.next() % (1u64 << b)) as i64 + 1;
                (if r.coin() { v } else { -v }).clamp(i32::MIN as i64, i32::MAX as i64)
            }
        };
        let ka = k.unsigned_abs().max(1);
        // base chosen so that x^n stays in range: |log2 x| * |n| < 850
        let span = (850.0 / ka as f64).min(30.0);
        if span >= 1.0 {
            let e = r.range(-(span as i64), span as i64) as i32;
            load_valid(m, r, 0, e, e + 1);
        } else {
            // x = 1 +- t with t ~ span * ln2 (so that |n| * log2 x is below 850)
            let t = span * 0.69 * (r.below(1000) as f64 / 1000.0);
            let hi = 1.0 + sgn(r) * t;
            load_near(m, r, 0, hi);
        }
        if i % 9 == 0 {
            let z = if r.coin() { 0.0 } else { -0.0 };
            m.load(0, z, 0.0);
        }
        if r.coin() {
            m.call("arith", "neg", "v", Some(0), &[A::R(0)]);
        }
        let arg = A::I(k < 0, k.unsigned_abs() as u128, "i32");
        m.call("pow", "powi", *r.pick(&["inh", "Float", "FloatCore", "Pow_i32_vv", "Pow_i32_rr"]), Some(1), &[A::R(0), arg.clone()]);
        if k > 0 && k <= i32::MAX as i64 {
            // powi(x, -n) == powi(x, n).recip()
            m.call("arith", "recip", "inh", Some(2), &[A::R(1)]);
            m.call("pow", "powi", "inh", Some(3), &[A::R(0), A::I(true, k as u128, "i32")]);
        }
    }
}

// ------------------------------------------------------------------------------------ C14
fn exp_arg(m: &mut M, r: &mut Rng, d: usize) {
    match r.below(13) {
        0..=4 => {
            // x = y/2 + n/128 + delta : every table entry, both sides of the reduction boundaries
            let y = r.range(-1400, 1416) as f64;
            let nn = r.range(-32, 32) as f64;
            let base = y / 2.0 + nn / 128.0;
            let delta = match r.below(6) {
                0 => 0.0,
                1 => sgn(r) * pow2(-(r.range(40, 80) as i32)),
                2 => sgn(r) * (1.0 / 256.0 - pow2(-(r.range(30, 60) as i32))),
                3 => sgn(r) * (r.below(1 << 20) as f64) * pow2(-28),
                _ => sgn(r) * pow2(-(r.range(9, 30) as i32)) * (1.0 + r.below(16) as f64 / 16.0),
            };
            load_sum(m, d, base, delta);
        }
        5 => {
            // odd quarters with a low word pointing away from the rounded half-integer
            let q = (2 * r.range(-2800, 2800) + 1) as f64 / 4.0;
            let ulp = if q == 0.0 { 0.0 } else { pow2(exponent(q) - 52) };
            let lo = sgn(r) * ulp * *r.pick(&[0.375, 0.25, 0.125, 0.4990234375, 1e-10]);
            load_sum(m, d, q, lo);
        }
        6 => {
            // range switches
            let b = *r.pick(&[-709.0, 709.0, -750.0, 710.0, -600.0, 700.0, -708.5, 708.5]);
            load_sum(m, d, b, sgn(r) * pow2(-(r.range(1, 60) as i32)) * r.below(3) as f64);
        }
        7 => {
            let e = r.range(-1000, -1) as i32;
            let h = sgn(r) * log_uniform(r, e, e + 1);
            load_near(m, r, d, h);
        }
        8 => {
            let z = if r.coin() { 0.0 } else { -0.0 };
            m.load(d, z, 0.0);
        }
        9 | 10 => {
            let h = sgn(r) * tiny_arg(r);
            load_near(m, r, d, h);
        }
        _ => {
            let h = sgn(r) * log_uniform(r, -10, 10).min(740.0);
            load_near(m, r, d, h);
        }
    }
}

pub fn exps(m: &mut M, r: &mut Rng, n: u64) {
    for i in 0..n {
        m.group("exp");
        exp_arg(m, r, 0);
        m.call("elem", "exp", *r.pick(&SP2), Some(1), &[A::R(0)]);
        if i % 4 == 1 {
            neighbour_replay(m, r, "elem", &["exp"], 0);
        }
        match i % 3 {
            0 => {
                // exp_m1: both sides of -ln 2, ln 1.5, +-2^-8, -0.70, 0.41, tiny
                match r.below(6) {
                    0 => {
                        let b = *r.pick(&[-0.6931471805599453, 0.4054651081081644, 0.00390625, -0.00390625, -0.70, 0.41, 0.75]);
                        load_sum(m, 2, b, sgn(r) * pow2(-(r.range(20, 70) as i32)) * r.below(3) as f64);
                    }
                    1 => {
                        let e = r.range(-1000, -8) as i32;
                        let h = sgn(r) * if r.coin() { log_uniform(r, e, e + 1) } else { tiny_arg(r) };
                        load_near(m, r, 2, h);
                    }
                    2 => {
                        let h = sgn(r) * log_uniform(r, -8, 0);
                        load_near(m, r, 2, h);
                    }
                    3 => exp_arg(m, r, 2),
                    _ => {
                        let h = sgn(r) * log_uniform(r, -3, 9).min(699.0);
                        load_near(m, r, 2, h);
                    }
                }
                m.call("elem", "exp_m1", *r.pick(&SP2), Some(3), &[A::R(2)]);
                if i % 4 == 0 {
                    neighbour_replay(m, r, "elem", &["exp_m1"], 2);
                }
            }
            1 => {
                // exp2: integers, half-integers, range switches, random
                match r.below(6) {
                    0 => {
                        let k = r.range(-1080, 1030) as f64;
                        m.load(2, k, 0.0);
                    }
                    1 => {
                        let k = r.range(-1075, 1023) as f64 + 0.5;
                        load_sum(m, 2, k, sgn(r) * pow2(-(r.range(30, 60) as i32)) * r.below(2) as f64);
                    }
                    2 => {
                        let b = *r.pick(&[-1074.0, 1023.0, -1080.0, 1024.0, -900.0, 1000.0, 0.0, -1022.0, 1022.0]);
                        load_sum(m, 2, b, sgn(r) * pow2(-(r.range(1, 50) as i32)) * r.below(3) as f64);
                    }
                    3 => {
                        let h = sgn(r) * tiny_arg(r);
                        load_near(m, r, 2, h);
                    }
                    _ => {
                        let h = (sgn(r) * log_uniform(r, -2, 10)).clamp(-899.0, 999.0);
                        load_near(m, r, 2, h);
                    }
                }
                m.call("elem", "exp2", *r.pick(&SP2), Some(3), &[A::R(2)]);
                if i % 4 == 1 {
                    neighbour_replay(m, r, "elem", &["exp2"], 2);
                }
            }
            _ => {
                powf_case(m, r);
            }
        }
    }
}

fn powf_case(m: &mut M, r: &mut Rng) {
    // base x into r2, exponent y into r3, hint ln|x| into r4
    if r.below(10) == 0 {
        // sign rule far outside the accuracy range: huge integer exponents (every f64 integer >= 2^53 is even unless
        // the low word says otherwise) under a negative base so close to -1 that the power stays finite
        let j = r.range(40, 1000) as i32;
        match r.below(3) {
            0 => {
                m.load(2, -1.0, 0.0);
            }
            1 => load_sum(m, 2, -1.0, -pow2(-j.min(100))),
            _ => load_sum(m, 2, -1.0, pow2(-j.min(100))),
        }
        let k = r.range(53, 1000) as i32;
        match r.below(4) {
            0 | 1 => {
                let s1 = sgn(r);
                m.load(3, s1 * pow2(k), 0.0);
            }
            2 => {
                let s1 = sgn(r);
                let fr = r.frac52();
                m.load(3, s1 * f64::from_bits((((k + 1023) as u64) << 52) | fr), 0.0);
            }
            _ => {
                // parity (or not) in the low word
                let mlo = r.range(0, (k - 54).min(80) as i64) as i32;
                let odd = (2 * r.range(0, 7) + 1) as f64;
                let s1 = sgn(r);
                let s2 = sgn(r);
                m.load(3, s1 * pow2(k.max(60)), s2 * odd * pow2(mlo.min(k.max(60) - 58)));
            }
        }
        m.call("base", "abs", "inh", Some(5), &[A::R(2)]);
        m.call("elem", "ln", "inh", Some(4), &[A::R(5)]);
        m.call("elem", "powf", *r.pick(&["inh", "Float", "Pow_vv", "Pow_rr"]), Some(6), &[A::R(2), A::R(3), A::R(4)]);
        return;
    }
    match r.below(9) {
        0 => {
            let z = if r.coin() { 0.0 } else { -0.0 };
            m.load(2, z, 0.0);
        }
        8 => {
            // dense around +-1: 1 +- 2^-j (for j > 53 the high word is exactly 1 and the low word is not zero)
            let j = r.range(1, 105) as i32;
            let s0 = if r.below(4) == 0 { -1.0 } else { 1.0 };
            load_sum(m, 2, s0, sgn(r) * pow2(-j) * (1.0 + r.below(8) as f64 / 8.0));
        }
        1 | 2 => {
            let h = -log_uniform(r, -30, 30);
            load_near(m, r, 2, h);
        }
        _ => {
            let h = log_uniform(r, -30, 30);
            load_near(m, r, 2, h);
        }
    }
    match r.below(8) {
        0 => {
            m.load(3, 0.0, 0.0);
        }
        1 | 2 => {
            let k = r.range(-10, 10) as f64;
            m.load(3, k, 0.0);
        }
        3 => {
            // integer-valued with a non-zero low word is impossible below 2^53; use half-integers instead
            let k = r.range(-10, 9) as f64 + 0.5;
            m.load(3, k, 0.0);
        }
        4 => {
            // large integer exponents with the parity in the low word: outside the accuracy range, sign/validity only
            let hi = pow2(r.range(54, 60) as i32);
            let lo = (2 * r.range(-3, 3) + r.range(0, 1)) as f64;
            m.load(3, hi, lo);
        }
        _ => {
            let h = sgn(r) * log_uniform(r, -6, 4).min(10.0);
            load_near(m, r, 3, h);
        }
    }
    m.call("base", "abs", "inh", Some(5), &[A::R(2)]);
    m.call("elem", "ln", "inh", Some(4), &[A::R(5)]);
    let y = m.tf(3);
    if y.lo() == 0.0 && r.below(3) == 0 {
        m.call("elem", "powf", *r.pick(&["Pow_f64_vv", "Pow_f64_rr"]), Some(6), &[A::R(2), A::F(y.hi()), A::R(4)]);
    }
    m.call("elem", "powf", *r.pick(&["inh", "Float", "Pow_vv", "Pow_rr"]), Some(6), &[A::R(2), A::R(3), A::R(4)]);
    if r.below(3) == 0 {
        neighbour_replay2(m, r, "powf", 2, 3, &[4]);
    }
}

// ------------------------------------------------------------------------------------ C15
pub fn logs(m: &mut M, r: &mut Rng, n: u64) {
    for i in 0..n {
        m.group("log");
        match r.below(10) {
            0 | 1 => {
                // dense around 1: 1 +- 2^-j, including values whose high word is 1
                let j = r.range(1, 105) as i32;
                load_sum(m, 0, 1.0, sgn(r) * pow2(-j) * (1.0 + r.below(8) as f64 / 8.0));
            }
            2 => {
                let k = r.range(-1000, 959) as i32;
                m.load(0, pow2(k), 0.0);
            }
            3 => {
                // arguments whose logarithm is within an ulp of a multiple of 1/4 (the Newton iterate then has
                // a high word exactly on a quarter / half-integer and a low word of either sign: exp's
                // reduction ties), on both sides
                let k = r.range(-2600, 2600) as f64 / 4.0;
                let h0 = k.exp();
                if h0.is_finite() && h0 > 1e-300 {
                    let h = match r.below(4) { 0 => next_up_mag(h0), 1 => next_down_mag(h0), _ => h0 };
                    load_near(m, r, 0, h);
                } else {
                    m.load(0, 2.0, 0.0);
                }
            }
            4 => {
                let b = *r.pick(&[0.0, -0.0, -1.0, -2.5]);
                m.load(0, b, 0.0);
            }
            5 => {
                m.load(0, *r.pick(&[1.0, 2.0, 10.0, 100.0, 0.5, 8.0]), 0.0);
            }
            _ => {
                let h = log_uniform(r, -1000, 960);
                load_near(m, r, 0, h);
            }
        }
        m.call("elem", "ln", *r.pick(&SP2), Some(1), &[A::R(0)]);
        m.call("elem", "log2", *r.pick(&SP2), Some(2), &[A::R(0)]);
        // log10(x) == ln(x) / LN_10
        m.call("const", "const", "consts", Some(3), &[A::S("LN_10".into())]);
        m.call("arith", "div", "vv", Some(4), &[A::R(1), A::R(3)]);
        m.call("elem", "log10", *r.pick(&SP2), Some(5), &[A::R(0)]);
        if i % 4 == 3 {
            neighbour_replay(m, r, "elem", &["ln", "log2", "log10"], 0);
        }
        if i % 3 == 0 {
            // log(x, b) == ln(x) / ln(b)
            // bases: the special ones for which a dedicated routine exists, their neighbours, and generic ones
            let hb = match r.below(4) {
                0 => *r.pick(&[2.0, 10.0, 0.5, 4.0, 100.0, 3.0, std::f64::consts::E]),
                1 => {
                    let b = *r.pick(&[2.0, 10.0]);
                    if r.coin() { next_up_mag(b) } else { next_down_mag(b) }
                }
                _ => log_uniform(r, -20, 20),
            };
            if r.coin() {
                m.load(6, hb, 0.0);
            } else {
                load_near(m, r, 6, hb);
            }
            m.call("elem", "ln", "inh", Some(7), &[A::R(6)]);
            m.call("arith", "div", "vv", Some(4), &[A::R(1), A::R(7)]);
            m.call("elem", "log", *r.pick(&SP2), Some(5), &[A::R(0), A::R(6)]);
            if i % 2 == 0 {
                neighbour_replay2(m, r, "log", 0, 6, &[]);
            }
        }
        // ln_1p
        match r.below(8) {
            0 => {
                // log-uniform distance 1 + x to the singularity x = -1, down to the least subnormal (x = (-1, lo) is a
                // valid double-double for every such lo): ln_1p is claimed on the whole of (-1, ...)
                let j = if r.coin() { r.range(1, 100) } else { r.range(100, 1074) } as i32;
                let d = if j >= 1071 { pow2(-j) } else { pow2(-j) * (1.0 + r.below(8) as f64 / 8.0) };
                load_sum(m, 6, -1.0, d);
            }
            1 => {
                let e = r.range(-1000, -8) as i32;
                let h = sgn(r) * if r.coin() { log_uniform(r, e, e + 1) } else { tiny_arg(r) };
                load_near(m, r, 6, h);
            }
            2 => {
                let b = *r.pick(&[0.00390625, -0.00390625, 0.75, 0.0, -1.0, -1.5, 0.5]);
                load_sum(m, 6, b, sgn(r) * pow2(-(r.range(20, 70) as i32)) * r.below(3) as f64);
            }
            3 => {
                let h = log_uniform(r, 0, 960);
                load_near(m, r, 6, h);
            }
            _ => {
                let h = sgn(r) * log_uniform(r, -8, 0);
                load_near(m, r, 6, h);
            }
        }
        m.call("elem", "ln_1p", *r.pick(&SP2), Some(7), &[A::R(6)]);
    }
}

// ------------------------------------------------------------------------------------ C16
fn trig_arg(m: &mut M, r: &mut Rng, d: usize) {
    if r.below(6) == 0 {
        // x = q * pi/2 +- (pi/4 -+ eps), eps one binade at a time (round-robin) from 2^-50 down to 2^-112: the
        // reduced argument sits just inside / just outside the end of the kernels' interval (operand computed with
        // the crate's own arithmetic, it only has to be near the target; the verdict is the specification's)
        let q = match r.below(3) { 0 => r.range(-4, 4), 1 => r.range(-2000, 2000), _ => r.range(-600000, 600000) } as f64;
        let eps = pow2(-50 - (r.tick() % 63) as i32) * (1.0 + (r.below(8) as f64) / 8.0);
        let inner = if r.coin() { 1.0 } else { -1.0 };
        let side = sgn(r);
        let x = twofloat::consts::FRAC_PI_2 * q + side * (twofloat::consts::FRAC_PI_4 - inner * eps);
        if x.is_valid() && m.load(d, x.hi(), x.lo()) {
            return;
        }
    }
    match r.below(12) {
        0..=2 => {
            // both sides of multiples of pi/4 (the f64 product is within an ulp; add a few ulps of offset)
            let k = match r.below(3) {
                0 => r.range(-12, 12),
                1 => r.range(-2000, 2000),
                _ => r.range(-1330000, 1330000),
            } as f64;
            let h = k * std::f64::consts::FRAC_PI_4;
            let u = if h == 0.0 { pow2(-60) } else { pow2(exponent(h) - 52) };
            load_sum(m, d, h, (r.range(-3, 3) as f64) * u + sgn(r) * u * pow2(-(r.range(1, 50) as i32)));
        }
        3 => {
            let e = r.range(-1000, -2) as i32;
            let h = sgn(r) * if r.below(3) == 0 { log_uniform(r, e, e + 1) } else { tiny_arg(r) };
            load_near(m, r, d, h);
        }
        4 => {
            let h = sgn(r) * log_uniform(r, 18, 20);
            load_near(m, r, d, h);
        }
        5 => {
            let z = if r.coin() { 0.0 } else { -0.0 };
            m.load(d, z, 0.0);
        }
        10 | 11 => {
            let h = sgn(r) * tiny_arg(r);
            load_near(m, r, d, h);
        }
        6 => {
            // quadrant by quadrant near small multiples
            let q = r.range(-8, 8) as f64;
            let h = q * std::f64::consts::FRAC_PI_2 + (r.below(1000) as f64 / 1000.0 - 0.5) * 1.5;
            load_near(m, r, d, h);
        }
        _ => {
            let h = sgn(r) * log_uniform(r, -3, 20);
            load_near(m, r, d, h);
        }
    }
}

/// f(x) has just been evaluated for the value in register `reg` (same group): evaluate f on a neighbour that
/// shares the HIGH WORD of x but has another low word, then f(x) again.  The accuracy contract is evaluated on
/// the neighbour right after a call with the same high word, and the determinism memo demands that the second
/// f(x) reproduces the first: a cache / memoised reduction keyed on part of the argument shows up as either.
fn neighbour_replay(m: &mut M, r: &mut Rng, fam: &str, ops: &[&str], reg: usize) {
    let x = m.tf(reg);
    if !x.hi().is_finite() || x.hi() == 0.0 {
        return;
    }
    for _ in 0..4 {
        let lo2 = match r.below(4) {
            0 => -x.lo(),
            1 => 0.0,
            2 => x.lo() * 0.5,
            _ => lo_candidate(r, x.hi()),
        };
        if lo2.to_bits() != x.lo().to_bits() && m.load(7, x.hi(), lo2) {
            for op in ops {
                m.call(fam, op, "inh", Some(6), &[A::R(7)]);
            }
            for op in ops {
                m.call(fam, op, "inh", Some(6), &[A::R(reg)]);
            }
            return;
        }
    }
}

/// the two-operand version: f(x, y) has just been evaluated (same group); for each operand in turn, evaluate f with
/// that operand replaced by a neighbour sharing its high word, then f(x, y) again.  `extra` are further argument
/// registers passed unchanged (the logarithm hint of powf).
fn neighbour_replay2(m: &mut M, r: &mut Rng, op: &str, x: usize, y: usize, extra: &[usize]) {
    // a destination register that is not one of the operands
    let dest = (0..7usize).rev().find(|d| *d != x && *d != y && !extra.contains(d)).unwrap();
    for which in 0..2 {
        let reg = if which == 0 { x } else { y };
        let v = m.tf(reg);
        if !v.hi().is_finite() || v.hi() == 0.0 {
            continue;
        }
        for _ in 0..4 {
            let lo2 = match r.below(4) {
                0 => -v.lo(),
                1 => 0.0,
                2 => v.lo() * 0.5,
                _ => lo_candidate(r, v.hi()),
            };
            if lo2.to_bits() != v.lo().to_bits() && m.load(7, v.hi(), lo2) {
                let mut a1: Vec<A> = vec![A::R(if which == 0 { 7 } else { x }), A::R(if which == 1 { 7 } else { y })];
                let mut a0: Vec<A> = vec![A::R(x), A::R(y)];
                for e in extra {
                    a1.push(A::R(*e));
                    a0.push(A::R(*e));
                }
                m.call("elem", op, "inh", Some(dest), &a1);
                m.call("elem", op, "inh", Some(dest), &a0);
                break;
            }
        }
    }
}

pub fn trig(m: &mut M, r: &mut Rng, n: u64) {
    for i in 0..n {
        m.group("trig");
        trig_arg(m, r, 0);
        m.call("elem", "sin", *r.pick(&SP2), Some(1), &[A::R(0)]);
        m.call("elem", "cos", *r.pick(&SP2), Some(2), &[A::R(0)]);
        m.call("elem", "sin_cos", *r.pick(&SP2), Some(3), &[A::R(0)]);
        m.call("elem", "tan", *r.pick(&SP2), Some(4), &[A::R(0)]);
        if i % 3 == 0 {
            neighbour_replay(m, r, "elem", &["sin", "cos", "tan", "sin_cos"], 0);
        }
        if i % 40 == 0 {
            let (op1, a1, b1) = *r.pick(&[("new_add", f64::INFINITY, 1.0), ("new_add", f64::NAN, 1.0), ("new_mul", 1e300, 1e300)]);
            m.call("arith", op1, "inh", Some(5), &[A::F(a1), A::F(b1)]);
            for op in ["sin", "cos", "tan", "sin_cos"] {
                m.call("elem", op, "inh", Some(6), &[A::R(5)]);
            }
        }
    }
}

// ------------------------------------------------------------------------------------ C17
pub fn atrig(m: &mut M, r: &mut Rng, n: u64) {
    for i in 0..n {
        m.group("atrig");
        // asin / acos
        match r.below(8) {
            0 => {
                let b = *r.pick(&[0.5, -0.5, 1.0, -1.0, 0.0, -0.0]);
                load_sum(m, 0, b, if b.abs() == 1.0 { 0.0 } else { sgn(r) * pow2(-(r.range(54, 100) as i32)) * r.below(2) as f64 });
            }
            1 => {
                // log-uniform in the distance 1 - |x| to the end points (powers of two and random mantissas)
                let j = r.range(1, 100) as i32;
                let s = sgn(r);
                let d = if r.coin() { pow2(-j) } else { pow2(-j) * (1.0 + (r.below(1u64 << 52) as f64) * pow2(-52)) };
                load_sum(m, 0, s, -s * d);
            }
            2 => {
                let e = r.range(-300, -2) as i32;
                let h = sgn(r) * if r.coin() { log_uniform(r, e, e + 1) } else { tiny_arg(r) };
                load_near(m, r, 0, h);
            }
            3 => {
                let h = sgn(r) * (1.0 + pow2(-(r.range(1, 52) as i32)));
                load_near(m, r, 0, h); // |x| > 1
            }
            _ => {
                let h = sgn(r) * (r.below(1u64 << 53) as f64) * pow2(-53);
                load_near(m, r, 0, h);
            }
        }
        m.call("elem", "asin", *r.pick(&SP2), Some(1), &[A::R(0)]);
        m.call("elem", "acos", *r.pick(&SP2), Some(2), &[A::R(0)]);
        if i % 4 == 2 {
            neighbour_replay(m, r, "elem", &["asin", "acos"], 0);
        }
        // atan: every reduction interval, both sides of the breakpoints
        match r.below(6) {
            0 | 1 => {
                let b = *r.pick(&[0.4375, 0.6875, 1.1875, 2.4375, 0.5, 1.0, 1.5]);
                let u = pow2(exponent(b) - 52);
                load_sum(m, 3, sgn(r) * b, (r.range(-2, 2) as f64) * u * pow2(-(r.range(0, 53) as i32)));
            }
            2 => {
                let e = r.range(-300, -2) as i32;
                let h = sgn(r) * if r.coin() { log_uniform(r, e, e + 1) } else { tiny_arg(r) };
                load_near(m, r, 3, h);
            }
            3 => {
                let h = sgn(r) * log_uniform(r, 2, 60);
                load_near(m, r, 3, h);
            }
            4 => {
                m.load(3, if r.coin() { 0.0 } else { -0.0 }, 0.0);
            }
            _ => {
                let h = sgn(r) * log_uniform(r, -2, 2);
                load_near(m, r, 3, h);
            }
        }
        m.call("elem", "atan", *r.pick(&SP2), Some(4), &[A::R(3)]);
        // atan2: sign/zero matrix and octants
        if i % 4 == 0 {
            let zs = [0.0, -0.0];
            let y = *r.pick(&zs);
            let x = *r.pick(&[0.0, -0.0, 1.5, -1.5, 3.0e5, -2.0e-7]);
            m.load(5, y, 0.0);
            load_near(m, r, 6, x);
            m.call("elem", "atan2", *r.pick(&SP2), Some(7), &[A::R(5), A::R(6)]);
            m.call("elem", "atan2", "inh", Some(7), &[A::R(6), A::R(5)]);
        } else {
            let ey = r.range(-30, 29) as i32;
            let ex = match r.below(3) {
                0 => ey,
                1 => r.range(-30, 29) as i32,
                _ => (ey + r.range(-3, 3) as i32).clamp(-30, 29),
            };
            let hy = sgn(r) * log_uniform(r, ey, ey + 1);
            let hx = sgn(r) * log_uniform(r, ex, ex + 1);
            if i % 3 == 1 {
                // the high words are in an exactly representable ratio (the diagonals, 2:1, 3:2, ...) and only one
                // operand has a low word: the quotient y/x then differs from the ratio of the high words by the
                // low word alone
                let c = *r.pick(&[1.0, -1.0, 2.0, 0.5, 3.0, 1.5, 0.75, 4.0]);
                let (one_word, two_words) = if r.coin() { (5, 6) } else { (6, 5) };
                m.load(one_word, c * hx, 0.0);
                loop {
                    let lo = lo_candidate(r, hx);
                    if lo != 0.0 && m.load(two_words, hx, lo) {
                        break;
                    }
                }
            } else {
                load_near(m, r, 5, hy);
                load_near(m, r, 6, hx);
            }
            m.call("elem", "atan2", *r.pick(&SP2), Some(7), &[A::R(5), A::R(6)]);
            if i % 4 == 0 {
                neighbour_replay2(m, r, "atan2", 5, 6, &[]);
            }
        }
    }
}

// ------------------------------------------------------------------------------------ C18
pub fn hyp(m: &mut M, r: &mut Rng, n: u64) {
    for i in 0..n {
        m.group("hyp");
        // forward functions: (x, -x) pairs
        match r.below(6) {
            0 => {
                let h = if r.coin() { tiny_arg(r) } else { log_uniform(r, -40, 0) };
                load_near(m, r, 0, h);
            }
            1 => exp_arg_pos(m, r, 0),
            2 => {
                m.load(0, if r.coin() { 0.0 } else { -0.0 }, 0.0);
            }
            _ => {
                let h = log_uniform(r, -3, 10).min(599.0);
                load_near(m, r, 0, h);
            }
        }
        m.call("arith", "neg", "v", Some(1), &[A::R(0)]);
        for reg in [0usize, 1] {
            m.call("elem", "sinh", *r.pick(&SP2), Some(2), &[A::R(reg)]);
            m.call("elem", "cosh", *r.pick(&SP2), Some(2), &[A::R(reg)]);
            m.call("elem", "tanh", *r.pick(&SP2), Some(2), &[A::R(reg)]);
        }
        if i % 4 == 0 {
            neighbour_replay(m, r, "elem", &["sinh", "cosh", "tanh"], 0);
        }
        // asinh: both signs, up to 2^60
        match r.below(5) {
            0 => {
                let h = *r.pick(&[1e3, 1e8, 1e10, 1e15, 1.152921504606847e18, 1.0, 0.5]);
                load_near(m, r, 3, h);
            }
            1 => {
                let h = if r.coin() { tiny_arg(r) } else { log_uniform(r, -40, 0) };
                load_near(m, r, 3, h);
            }
            _ => {
                let h = log_uniform(r, -2, 60);
                load_near(m, r, 3, h);
            }
        }
        m.call("arith", "neg", "v", Some(4), &[A::R(3)]);
        m.call("elem", "asinh", *r.pick(&SP2), Some(5), &[A::R(3)]);
        m.call("elem", "asinh", *r.pick(&SP2), Some(5), &[A::R(4)]);
        // acosh: 1 + 2^-j, generic, below 1
        match r.below(5) {
            0 => {
                // log-uniform in the distance to the branch point x = 1 (full random mantissa)
                let j = r.range(1, 58) as i32;
                let u = if r.coin() { r.below(8) as f64 / 8.0 } else { (r.below(1u64 << 52) as f64) * pow2(-52) };
                load_sum(m, 6, 1.0, pow2(-j) * (1.0 + u));
            }
            1 => {
                // the exact point and the edge of the domain, with either sign of a zero low word (a value that went
                // through a negation or abs carries lo = -0.0)
                m.load(6, *r.pick(&[1.0, 1.0, 0.5, 0.0, -2.0]), if r.coin() { 0.0 } else { -0.0 });
            }
            _ => {
                let h = log_uniform(r, 0, 60);
                load_near(m, r, 6, h);
            }
        }
        m.call("elem", "acosh", *r.pick(&SP2), Some(7), &[A::R(6)]);
        // atanh: +-(1 - 2^-j), j <= 10, generic, |x| >= 1
        match r.below(5) {
            0 => {
                // log-uniform in the distance 1 - |x| to the singularities x = +-1 down to the range limit 2^-10:
                // exact powers of two and full random mantissas, one binade at a time (round-robin)
                let j = 1 + (r.tick() % 10) as i32;
                let s = sgn(r);
                let d = if r.below(4) == 0 { pow2(-j) } else { pow2(-j) * (1.0 + (r.below(1u64 << 52) as f64) * pow2(-52)) };
                load_sum(m, 6, s, -s * d.max(pow2(-10)));
            }
            1 => {
                m.load(6, *r.pick(&[1.0, -1.0, 1.5, 0.0, -0.0]), 0.0);
            }
            2 => {
                let h = sgn(r) * if r.coin() { tiny_arg(r) } else { log_uniform(r, -40, 0) };
                load_near(m, r, 6, h);
            }
            _ => {
                let h = sgn(r) * (r.below(1u64 << 53) as f64) * pow2(-53) * 0.999;
                load_near(m, r, 6, h);
            }
        }
        m.call("elem", "atanh", *r.pick(&SP2), Some(7), &[A::R(6)]);
        // the mirrored argument (atanh is odd; an algebraic rewriting may cancel on one side only)
        m.call("arith", "neg", "v", Some(6), &[A::R(6)]);
        m.call("elem", "atanh", *r.pick(&SP2), Some(7), &[A::R(6)]);
        let _ = i;
    }
}

fn exp_arg_pos(m: &mut M, r: &mut Rng, d: usize) {
    // odd quarters with the low word pointing away (the exp reduction boundary), positive
    let q = (2 * r.range(0, 2300) + 1) as f64 / 4.0;
    let ulp = pow2(exponent(q) - 52);
    load_sum(m, d, q, -ulp * *r.pick(&[0.375, 0.25, 0.125]));
}

// ------------------------------------------------------------------------------------ C12
pub fn angles(m: &mut M, r: &mut Rng, n: u64) {
    m.group("consts");
    consts(m);
    // NAN != NAN, INFINITY not valid
    m.call("const", "const", "assoc", Some(0), &[A::S("NAN".into())]);
    for op in ["eq", "ne", "pcmp"] {
        m.call("base", op, "op", None, &[A::R(0), A::R(0)]);
    }
    for c in ["INFINITY", "NEG_INFINITY", "MAX", "MIN", "MIN_POSITIVE"] {
        m.call("const", "const", "assoc", Some(1), &[A::S(c.into())]);
        m.call("base", "is_valid", "inh", None, &[A::R(1)]);
    }
    // MAX / MIN are the extreme valid values: nothing beside +-f64::MAX beyond their low words is accepted
    // by the checked constructors or by the validity predicates
    let maxlo = twofloat::TwoFloat::MAX.lo();
    for (j, lo) in [next_up_mag(maxlo), maxlo * 2.0, pow2(970), pow2(971), 1e300, pow2(1000), f64::MAX, maxlo, next_down_mag(maxlo), 1.0, pow2(-1074)]
        .iter()
        .enumerate()
    {
        for s in [1.0, -1.0] {
            let sp = if j % 2 == 0 { "tuple" } else { "array" };
            m.call("load", "try_from", sp, Some(2), &[A::F(s * f64::MAX), A::F(s * lo)]);
            m.call("base", "no_overlap", "fn", None, &[A::F(s * f64::MAX), A::F(s * lo)]);
            m.call("load", "try_from", sp, Some(2), &[A::F(s * f64::MAX), A::F(-s * lo)]);
        }
    }
    for i in 0..n {
        m.group("angle");
        match r.below(6) {
            0 => {
                let k = *r.pick(&[90.0, 180.0, 360.0, 45.0, 1.0, 57.29577951308232, 0.017453292519943295]);
                let s1 = sgn(r);
                load_near(m, r, 0, k * s1);
            }
            1 => {
                m.load(0, if r.coin() { 0.0 } else { -0.0 }, 0.0);
            }
            2 | 3 => {
                // arguments whose RESULT is within a few units of its own low word of a "nice" value (a whole
                // number of degrees / a whole multiple of pi/180 radians): k * pi/180 and k as double-doubles,
                // with the low word moved by 0..60 ulps either way (the operand is computed with the crate's
                // own arithmetic, which only has to be near the target; every verdict is the specification's)
                let k = if r.coin() { *r.pick(&[1.0, 30.0, 45.0, 60.0, 90.0, 180.0, 270.0, 360.0]) } else { r.range(1, 1400) as f64 };
                let x = if r.coin() { twofloat::consts::PI * k / 180.0 } else { twofloat::TwoFloat::from(k) * 180.0 / twofloat::consts::PI };
                let x = if r.coin() { x } else { -x };
                let j = match r.below(3) { 0 => 0, 1 => r.range(-3, 3), _ => r.range(-60, 60) };
                let lo = x.lo();
                let lo2 = if lo == 0.0 { lo } else { f64::from_bits((lo.to_bits() as i64 + j) as u64) };
                if !m.load(0, x.hi(), lo2) {
                    m.load(0, x.hi(), lo);
                }
            }
            _ => load_valid(m, r, 0, -449, 449),
        }
        let sp = if i % 3 == 0 { *r.pick(&["inh", "Float", "FloatCore"]) } else { "inh" };
        m.call("misc", "to_degrees", sp, Some(1), &[A::R(0)]);
        m.call("misc", "to_radians", sp, Some(2), &[A::R(0)]);
    }
    let _ = SP_TT;
}

/// every elementary function once per argument (used for the two-configuration comparison of C11: the
/// spec only demands identical words from the two builds, so thousands of arguments per second)
pub fn elem_all(m: &mut M, r: &mut Rng, n: u64) {
    for i in 0..n {
        m.group("elem_all");
        let h = match i % 8 {
            // arguments whose results land in the gradual-underflow / near-overflow zone of exp, exp2,
            // sinh, cosh (functions that scale or assemble their result words by hand)
            6 => -(1008.0 + 70.0 * (r.below(1u64 << 53) as f64) * pow2(-53)),
            7 => sgn(r) * (688.0 + 72.0 * (r.below(1u64 << 53) as f64) * pow2(-53)),
            0 => sgn(r) * tiny_arg(r),
            1 => sgn(r) * log_uniform(r, -3, 9).min(690.0),
            2 => sgn(r) * (r.below(1u64 << 53) as f64) * pow2(-53),
            3 => log_uniform(r, -30, 30),
            4 => sgn(r) * log_uniform(r, -1, 1),
            _ => log_uniform(r, -1000, 900),
        };
        if i % 16 == 9 {
            // exact points (0, 1, -1) in every signed-zero representation
            let p = *r.pick(&[0.0, -0.0, 1.0, -1.0]);
            m.load(0, p, if r.coin() { 0.0 } else { -0.0 });
        } else {
            load_near(m, r, 0, h);
        }
        for op in ["exp", "exp2", "exp_m1", "ln", "log2", "log10", "ln_1p", "sqrt", "cbrt", "sin", "cos", "tan", "sin_cos",
                   "asin", "acos", "atan", "sinh", "cosh", "tanh", "asinh", "acosh", "atanh"] {
            m.call("elem", op, "inh", Some(1), &[A::R(0)]);
        }
        if i % 5 == 1 {
            neighbour_replay(m, r, "elem", &["exp", "exp2", "exp_m1", "ln", "log2", "log10", "ln_1p", "sqrt", "cbrt", "sin", "cos", "tan",
                                             "asin", "acos", "atan", "sinh", "cosh", "tanh", "asinh", "acosh", "atanh"], 0);
        }
        if i % 4 == 0 {
            let h2 = sgn(r) * log_uniform(r, -3, 3);
            load_near(m, r, 2, h2);
            m.call("elem", "hypot", "inh", Some(3), &[A::R(0), A::R(2)]);
            if i % 8 == 0 {
                neighbour_replay2(m, r, "hypot", 0, 2, &[]);
                neighbour_replay2(m, r, "atan2", 0, 2, &[]);
            }
            m.call("elem", "atan2", "inh", Some(3), &[A::R(0), A::R(2)]);
            m.call("base", "abs", "inh", Some(4), &[A::R(0)]);
            m.call("elem", "ln", "inh", Some(5), &[A::R(4)]);
            m.call("elem", "powf", "inh", Some(3), &[A::R(4), A::R(2), A::R(5)]);
            m.call("base", "abs", "inh", Some(6), &[A::R(2)]);
            m.call("elem", "log", "inh", Some(3), &[A::R(4), A::R(6)]);
            if i % 8 == 4 {
                // hidden state keyed on part of an operand of a two-operand function (a cache of ln(base), ...)
                neighbour_replay2(m, r, "powf", 4, 2, &[5]);
                neighbour_replay2(m, r, "log", 4, 6, &[]);
            }
            let k = r.range(-40, 40);
            m.call("pow", "powi", "inh", Some(3), &[A::R(0), A::I(k < 0, k.unsigned_abs() as u128, "i32")]);
            m.call("misc", "to_degrees", "inh", Some(3), &[A::R(0)]);
            m.call("misc", "to_radians", "inh", Some(3), &[A::R(0)]);
        }
    }
}

/// C01 over programs: arithmetic and mathematical functions mixed, results fed back into other calls.
/// Validated with C01_ONLY=1 (normalisation clause + determinism memo), so the accuracy oracles are
/// not paid for; registers are steered so that results visit the zones in which a hand-assembled
/// pair can lose normalisation (gradual underflow, near overflow, cancellation, huge/tiny arguments).
pub fn prog_elem(m: &mut M, r: &mut Rng, n: u64) {
    const UN: [&str; 24] = ["exp", "exp2", "exp_m1", "ln", "log2", "log10", "ln_1p", "sqrt", "cbrt", "sin", "cos", "tan",
                            "asin", "acos", "atan", "sinh", "cosh", "tanh", "asinh", "acosh", "atanh", "sin_cos", "exp2", "exp"];
    for _ in 0..n {
        m.group("prog_elem");
        for d in 0..8 {
            let h = match r.below(8) {
                0 => sgn(r) * tiny_arg(r),
                1 => sgn(r) * log_uniform(r, -3, 9).min(690.0),
                2 => -(1008.0 + 70.0 * (r.below(1u64 << 53) as f64) * pow2(-53)),
                3 => sgn(r) * (688.0 + 72.0 * (r.below(1u64 << 53) as f64) * pow2(-53)),
                4 => sgn(r) * log_uniform(r, -1, 1),
                5 => log_uniform(r, -1000, 1000),
                6 => sgn(r) * log_uniform(r, -30, 30),
                _ => sgn(r) * (r.below(2200) as f64) * 0.5,
            };
            load_near(m, r, d, h);
        }
        // directed block: results steered, one binade at a time (round-robin), through the gradual-underflow
        // zone 2^-1074..2^-1000 and up to the overflow threshold
        for _ in 0..6 {
            let t = r.tick();
            let e = if t % 4 == 3 { 990.0 + (t / 4 % 34) as f64 } else { -1075.0 + ((t - t / 4) % 76) as f64 };
            let u = (r.below(1u64 << 53) as f64) * pow2(-53);
            let d = r.below(8) as usize;
            match r.below(6) {
                0 | 1 => {
                    load_near(m, r, d, e + u);
                    m.call("elem", "exp2", *r.pick(&SP2), Some(d), &[A::R(d)]);
                }
                2 => {
                    load_near(m, r, d, (e + u) * core::f64::consts::LN_2);
                    m.call("elem", *r.pick(&["exp", "exp_m1", "sinh", "cosh"]), *r.pick(&SP2), Some(d), &[A::R(d)]);
                }
                3 => {
                    let k = r.range(2, 40);
                    let base = ((e + u) / k as f64).exp2();
                    load_near(m, r, d, base);
                    m.call("pow", "powi", "inh", Some(d), &[A::R(d), A::I(false, k as u128, "i32")]);
                }
                4 => {
                    let k = r.range(2, 40);
                    let base = (-(e + u) / k as f64).exp2();
                    load_near(m, r, d, base);
                    m.call("pow", "powi", "inh", Some(d), &[A::R(d), A::I(true, k as u128, "i32")]);
                }
                _ => {
                    let y = sgn(r) * log_uniform(r, 0, 6);
                    let base = ((e + u) / y).exp2();
                    let d2 = (d + 1) % 8;
                    if base.is_finite() && base > pow2(-1000) && base < pow2(1000) {
                        load_near(m, r, d, base);
                        load_near(m, r, d2, y);
                        m.call("elem", "powf", "inh", Some(d), &[A::R(d), A::R(d2), A::R(d)]);
                    }
                }
            }
        }
        let len = r.range(20, 50);
        for _ in 0..len {
            let a = r.below(8) as usize;
            let b = r.below(8) as usize;
            let d = r.below(8) as usize;
            if !m.tf(a).hi().is_finite() || !m.tf(a).is_valid() {
                let h = sgn(r) * log_uniform(r, -8, 8);
                load_near(m, r, a, h);
            }
            if !m.tf(b).hi().is_finite() || !m.tf(b).is_valid() {
                let h = sgn(r) * log_uniform(r, -8, 8);
                load_near(m, r, b, h);
            }
            match r.below(16) {
                0..=7 => {
                    let op = *r.pick(&UN);
                    if op == "sin_cos" {
                        m.call("elem", op, "inh", Some(d), &[A::R(a)]);
                    } else {
                        m.call("elem", op, *r.pick(&SP2), Some(d), &[A::R(a)]);
                    }
                }
                8 => {
                    m.call("elem", *r.pick(&["hypot", "atan2"]), "inh", Some(d), &[A::R(a), A::R(b)]);
                }
                9 => {
                    m.call("elem", "powf", "inh", Some(d), &[A::R(a), A::R(b), A::R(a)]);
                }
                10 => {
                    let k = r.range(-40, 40);
                    m.call("pow", "powi", "inh", Some(d), &[A::R(a), A::I(k < 0, k.unsigned_abs() as u128, "i32")]);
                }
                11 => {
                    m.call("elem", "log", "inh", Some(d), &[A::R(a), A::R(b)]);
                }
                12 => {
                    m.call("misc", *r.pick(&["to_degrees", "to_radians"]), "inh", Some(d), &[A::R(a)]);
                }
                13 => {
                    // bring a register back into a zone where the functions have finite, interesting results
                    let k = *r.pick(&[-1020.0, -1015.5, -1040.0, -740.0, -708.0, 700.0, 709.0, 1000.0, 1022.0, -900.0, 0.5, 20.0]);
                    m.call("arith", "add", "vv", Some(d), &[A::R(a), A::F(k)]);
                }
                _ => {
                    let op = *r.pick(&["add", "sub", "mul", "div"]);
                    if op != "div" || m.tf(b).hi() != 0.0 {
                        m.call("arith", op, *r.pick(&SP_TT), Some(d), &[A::R(a), A::R(b)]);
                    }
                }
            }
        }
    }
}

pub fn run(m: &mut M, r: &mut Rng, family: &str, n: u64) -> bool {
    match family {
        "elem_all" => elem_all(m, r, n),
        "prog_elem" => prog_elem(m, r, n),
        "roots" => roots(m, r, n),
        "powi" => powi(m, r, n),
        "exps" => exps(m, r, n),
        "logs" => logs(m, r, n),
        "trig" => trig(m, r, n),
        "atrig" => atrig(m, r, n),
        "hyp" => hyp(m, r, n),
        "angles" => angles(m, r, n),
        _ => return crate::gen4::run(m, r, family, n),
    }
    true
}
