//! Lattice families: the EXHAUSTIVE product of structural operand classes at binary64.
//!
//! The random directed generators (gen.rs .. gen4.rs) pick one class per operand at random, so a defect that
//! needs a coincidence of classes (cancellation depth x low-word class of both operands x spelling, a special
//! high word x a non-zero low word x the compound-assignment form, ...) is reached with the product of the
//! individual probabilities.  The lattice enumerates the product instead.  It is the binary64 image of the
//! operand sets of the small-format models (spec/MC_Small.tla: ValidWithHi / LoWordsFor): a handful of
//! significand shapes (power of two, just above it, all ones, all ones but one, 1.5, generic odd / even) times
//! every low-word class relative to the high word (zeros, the tie, its neighbours, the quarter-ulp limit and
//! its neighbours, short and full-width words a few binades below, far below, the least subnormal / least
//! normal), for both operands, times the exponent differences and ulp offsets that matter for the operation,
//! with the spelling advanced round-robin.  `n` is the number of slices the lattice is cut into and
//! VERIF_SLICE selects one (pairs are dealt round-robin), so `n` slices together are the whole lattice.
use crate::gen::SP_TT;
use crate::mach::{A, M};
use crate::rng::*;

/// 53-bit significands (with the leading one) of the structural shapes
const SIGS: [u64; 10] = [
    1 << 52,                         // power of two
    (1 << 52) | 1,                   // just above: odd
    (1 << 52) | 2,                   // even neighbour
    (1 << 53) - 1,                   // all ones: odd, just below the next power of two
    (1 << 53) - 2,                   // all ones but one: even
    3 << 51,                         // 1.5
    (3 << 51) | 1,
    0x0015_5555_5555_5555,           // 1.0101...: generic odd
    0x001a_aaaa_aaaa_aaaa,           // 1.1010...: generic even
    0x0013_c6ef_372f_e951,           // generic odd, no structure
];

fn word(sig: u64, e: i32, neg: bool) -> f64 {
    // sig * 2^(e - 52), e = exponent of the leading bit
    if !(-1022..=1023).contains(&e) {
        return f64::NAN;
    }
    let bits = (((e + 1023) as u64) << 52) | (sig & ((1u64 << 52) - 1));
    let x = f64::from_bits(bits);
    if neg {
        -x
    } else {
        x
    }
}

/// every low-word class beside the high word `hi` (candidates; validity is decided by hi + lo == hi)
fn lo_classes(hi: f64) -> Vec<f64> {
    let mut v = vec![0.0, -0.0];
    if hi == 0.0 || !hi.is_finite() {
        return v;
    }
    let e = exponent(hi);
    let half = pow2(e - 53);
    let quarter = pow2(e - 54);
    let mut mags = vec![
        half,
        next_down_mag(half),
        quarter,
        next_down_mag(quarter),
        next_up_mag(quarter),
        pow2(-1074),
        pow2(-1022),
    ];
    // short and full-width words 1..3 binades below the tie, and far below
    for g in [1, 2, 3, 30, 53, 54, 106, 200] {
        let el = e - 53 - g;
        for sig in [SIGS[0], SIGS[1], SIGS[3], SIGS[9]] {
            if g > 3 && sig != SIGS[1] && sig != SIGS[9] {
                continue;
            }
            if el >= -1022 {
                mags.push(word(sig, el, false));
            } else if el >= -1074 {
                mags.push(pow2(el) * if sig == SIGS[0] { 1.0 } else { 1.5 });
            }
        }
    }
    for x in mags {
        if x.is_finite() && x != 0.0 && x.abs() <= half {
            v.push(x);
            v.push(-x);
        }
    }
    v.sort_by(|a, b| a.to_bits().cmp(&b.to_bits()));
    v.dedup_by(|a, b| a.to_bits() == b.to_bits());
    v
}

fn valid(hi: f64, lo: f64) -> bool {
    // Definition: hi is the f64 nearest to hi + lo (ties to even), both finite
    hi.is_finite() && lo.is_finite() && hi + lo == hi
}

/// all valid (hi, lo) with the structural significands at exponent e, both signs of lo, positive hi
fn values_at(e: i32) -> Vec<(f64, f64)> {
    let mut out = Vec::new();
    for sig in SIGS {
        let hi = word(sig, e, false);
        if !hi.is_finite() {
            continue;
        }
        for lo in lo_classes(hi) {
            if valid(hi, lo) {
                out.push((hi, lo));
            }
        }
    }
    out
}

fn ulp_step(x: f64, k: i64) -> f64 {
    // x moved by k ulps in magnitude
    let b = x.to_bits() as i64 + k;
    f64::from_bits(b as u64)
}

struct Deal {
    idx: u64,
    n: u64,
    slice: u64,
}
impl Deal {
    fn take(&mut self) -> bool {
        self.idx += 1;
        (self.idx - 1) % self.n == self.slice % self.n
    }
}

/// second operands for + and -: cancelling / reinforcing neighbours of a.hi, and independent shapes at the
/// exponent differences where the algorithms change regime
fn partners_add(a_hi: f64) -> Vec<f64> {
    let mut v = Vec::new();
    for k in [0i64, 1, -1, 2, -2, 3, 1 << 10, -(1 << 10), 1 << 30] {
        let h = ulp_step(a_hi, k);
        if h.is_finite() && h != 0.0 {
            v.push(-h);
            v.push(h);
        }
    }
    let e = exponent(a_hi);
    for d in [1, -1, 2, -2, 52, -52, 53, -53, 54, -54, 106, -106, 110, -110] {
        for sig in [SIGS[0], SIGS[1], SIGS[3], SIGS[9]] {
            let h = word(sig, e + d, false);
            if h.is_finite() {
                v.push(h);
                v.push(-h);
            }
        }
    }
    v
}

fn partners_mul(a_hi: f64, base: i32) -> Vec<f64> {
    let _ = a_hi;
    let mut v = Vec::new();
    for d in [0, 1, -1, 7, -40] {
        if base + d < -1021 {
            continue;
        }
        for sig in SIGS {
            let h = word(sig, base + d, false);
            if h.is_finite() {
                v.push(h);
                v.push(-h);
            }
        }
    }
    v
}

fn partners_cmp(a_hi: f64) -> Vec<f64> {
    let mut v = vec![a_hi, -a_hi, 0.0, -0.0];
    if a_hi == 0.0 {
        return vec![0.0, -0.0, pow2(-1074), -pow2(-1074), 1.0];
    }
    for k in [1i64, -1, 2, -2] {
        let h = ulp_step(a_hi, k);
        if h.is_finite() && h != 0.0 {
            v.push(h);
        }
    }
    v
}

fn binary(m: &mut M, which: &str, n: u64, bases: &[(i32, i32)]) {
    let mut deal = Deal { idx: 0, n: n.max(1), slice: m.slice };
    let mut spi = m.slice as usize;
    for &(e, eb) in bases {
        let mut avals = values_at(e);
        if which == "cmp" && e == 0 {
            // the four zeros
            avals.extend([(0.0, 0.0), (-0.0, 0.0), (0.0, -0.0), (-0.0, -0.0)]);
        }
        for (ahi, alo) in avals {
            let partners = match which {
                "add" => partners_add(ahi),
                "mul" | "div" => partners_mul(ahi, eb),
                _ => partners_cmp(ahi),
            };
            let mut a_loaded = false;
            for bhi in partners {
                for blo in lo_classes(bhi) {
                    if !valid(bhi, blo) {
                        continue;
                    }
                    if !deal.take() {
                        continue;
                    }
                    if !a_loaded || m.since_group >= 48 {
                        m.group("lattice");
                        if !m.load(0, ahi, alo) {
                            // the specification's validity and the generator's disagree: leave the rejection in the trace
                            continue;
                        }
                        a_loaded = true;
                    }
                    if !m.load(1, bhi, blo) {
                        continue;
                    }
                    spi += 1;
                    let sp = SP_TT[spi % SP_TT.len()];
                    match which {
                        "add" => {
                            m.call("arith", "add", sp, Some(2), &[A::R(0), A::R(1)]);
                            m.call("arith", "sub", SP_TT[(spi / 6) % SP_TT.len()], Some(3), &[A::R(0), A::R(1)]);
                            if spi % 5 == 0 {
                                m.call("arith", "add", sp, Some(2), &[A::R(1), A::R(0)]);
                                m.call("arith", "add", "vv", Some(4), &[A::R(0), A::F(bhi)]);
                                m.call("arith", "sub", "vv", Some(4), &[A::F(bhi), A::R(0)]);
                            }
                        }
                        "mul" => {
                            m.call("arith", "mul", sp, Some(2), &[A::R(0), A::R(1)]);
                            m.call("arith", "mul", SP_TT[(spi / 6) % SP_TT.len()], Some(3), &[A::R(1), A::R(0)]);
                            if spi % 5 == 0 {
                                m.call("arith", "mul", "vv", Some(4), &[A::R(0), A::F(bhi)]);
                                m.call("arith", "mul", "vv", Some(4), &[A::F(bhi), A::R(0)]);
                            }
                        }
                        "div" => {
                            m.call("arith", "div", sp, Some(2), &[A::R(0), A::R(1)]);
                            m.call("arith", "div", SP_TT[(spi / 6) % SP_TT.len()], Some(3), &[A::R(1), A::R(0)]);
                            if spi % 5 == 0 {
                                m.call("arith", "div", "vv", Some(4), &[A::R(0), A::F(bhi)]);
                                m.call("arith", "div", "vv", Some(4), &[A::F(bhi), A::R(0)]);
                                m.call("arith", "recip", "inh", Some(4), &[A::R(1)]);
                            }
                        }
                        _ => {
                            for op in ["eq", "ne", "lt", "le", "gt", "ge", "pcmp"] {
                                m.call("base", op, "op", None, &[A::R(0), A::R(1)]);
                            }
                            m.call("base", "min", "inh", Some(2), &[A::R(0), A::R(1)]);
                            m.call("base", "max", "inh", Some(2), &[A::R(0), A::R(1)]);
                            m.call("base", "eq", "op", None, &[A::R(0), A::F(bhi)]);
                            m.call("base", "lt", "op", None, &[A::F(bhi), A::R(0)]);
                        }
                    }
                }
            }
        }
    }
}

/// unary operations over every structural value at the exponents where their case splits live
/// (`frac_only`: only the five rounding functions, so that the whole lattice fits a quick run)
fn unary(m: &mut M, n: u64, frac_only: bool) {
    let mut deal = Deal { idx: 0, n: n.max(1), slice: m.slice };
    let mut exps: Vec<i32> = (-3..=4).collect();
    exps.extend([51, 52, 53, 54, 55, 62, 63, 64, 105, 106, 107, 127, 128, -1000, 999, -1021, -1022]);
    for e in exps {
        for (hi, lo) in values_at(e) {
            for s in [1.0, -1.0] {
                if !deal.take() {
                    continue;
                }
                m.group("lattice");
                if !m.load(0, s * hi, s * lo) {
                    continue;
                }
                for op in ["floor", "ceil", "trunc", "round", "fract"] {
                    m.call("conv", op, "inh", Some(1), &[A::R(0)]);
                }
                if frac_only {
                    continue;
                }
                m.call("arith", "neg", "v", Some(1), &[A::R(0)]);
                m.call("base", "abs", "inh", Some(1), &[A::R(0)]);
                m.call("base", "signum", "inh", Some(1), &[A::R(0)]);
                m.call("base", "is_valid", "inh", None, &[A::R(0)]);
                m.call("arith", "recip", "inh", Some(1), &[A::R(0)]);
                m.call("elem", "sqrt", "inh", Some(1), &[A::R(0)]);
                m.call("elem", "cbrt", "inh", Some(1), &[A::R(0)]);
                for ty in ["i8", "u8", "i32", "u32", "i64", "u64", "i128", "u128"] {
                    m.call("conv", "try_into", "TryFrom_v", None, &[A::R(0), A::S(ty.into())]);
                }
                m.call("conv", "to_f64", "From_v", None, &[A::R(0)]);
            }
        }
    }
}

/// error-free constructors over pairs of structural f64 words (C02): every significand shape at the base
/// exponents x (every shape at the exponent differences where 2Sum / 2Prod change regime, the ulp neighbours of
/// +-a, and every low-word class beside a), both signs
fn new_words(m: &mut M, n: u64) {
    let mut deal = Deal { idx: 0, n: n.max(1), slice: m.slice };
    for e in [0, 1, -1000, 999, -1021, -480, 511, 1022, 1023, -1022] {
        for sig in SIGS {
            let a = word(sig, e, false);
            if !a.is_finite() {
                continue;
            }
            let mut bs: Vec<f64> = Vec::new();
            for d in [0, 1, -1, 2, -2, 52, -52, 53, -53, 54, -54, 55, -55, 106, -106, 200, -200, 1000, -1000] {
                for s2 in SIGS {
                    let b = word(s2, e + d, false);
                    if b.is_finite() {
                        bs.push(b);
                    }
                }
            }
            for k in [0i64, 1, -1, 2, -2, 1 << 20] {
                bs.push(ulp_step(a, k));
            }
            bs.extend(lo_classes(a).into_iter().filter(|x| *x > 0.0));
            for b0 in bs {
                for (sa, sb) in [(1.0, 1.0), (1.0, -1.0), (-1.0, 1.0)] {
                    if !deal.take() {
                        continue;
                    }
                    m.group_every(40, "lattice");
                    let (x, y) = (sa * a, sb * b0);
                    m.call("arith", "new_add", "inh", Some(2), &[A::F(x), A::F(y)]);
                    m.call("arith", "new_sub", "inh", Some(2), &[A::F(x), A::F(y)]);
                    m.call("arith", "new_sub", "inh", Some(2), &[A::F(y), A::F(x)]);
                    // products / quotients: keep the exponent sum inside the f64 range
                    let (ex, ey) = (exponent(x), if y == 0.0 { 0 } else { exponent(y) });
                    if y != 0.0 && (ex + ey).abs() < 1020 && (ex - ey).abs() < 1020 {
                        m.call("arith", "new_mul", "inh", Some(2), &[A::F(x), A::F(y)]);
                        m.call("arith", "new_div", "inh", Some(2), &[A::F(x), A::F(y)]);
                        m.call("arith", "new_div", "inh", Some(2), &[A::F(y), A::F(x)]);
                    }
                }
            }
        }
    }
}

/// remainders (C19): every structural divisor x quotient classes (small integers, powers of two and their
/// neighbours, beyond 2^53, up to 2^88) x the dividend k*b moved by nothing / one unit of its low word either
/// way (so the quotient is an integer or as close to one as a double-double can be) x signs
fn rems(m: &mut M, n: u64) {
    let mut deal = Deal { idx: 0, n: n.max(1), slice: m.slice };
    let ks: [f64; 14] = [1.0, 2.0, 3.0, 7.0, 10.0, 1024.0, 1025.0, 4503599627370495.0, 9007199254740992.0, 9007199254740994.0,
                         1180591620717411303424.0, 3458764513820540928.0, 309485009821345068724781056.0, 0.5];
    let mut spi = 0usize;
    // every small integer divisor with exact small multiples, one-word operands, every pairing (TwoFloat % TwoFloat,
    // TwoFloat % f64, f64 % TwoFloat, %=) and both Euclidean forms, all sign combinations: "when a and b are
    // integers below 2^53 all three are exact"
    for b in 1..=256i64 {
        for k in [1i64, 2, 3, 7, 10] {
            for (sa, sb) in [(1.0, 1.0), (-1.0, 1.0), (1.0, -1.0), (-1.0, -1.0)] {
                if !deal.take() {
                    continue;
                }
                m.group("lattice");
                let (af, bf) = (sa * (k * b) as f64, sb * b as f64);
                if !m.load(0, af, 0.0) || !m.load(1, bf, 0.0) {
                    continue;
                }
                spi += 1;
                m.call("arith", "rem", SP_TT[spi % SP_TT.len()], Some(2), &[A::R(0), A::R(1)]);
                m.call("arith", "rem", SP_TT[(spi / 6) % SP_TT.len()], Some(2), &[A::R(0), A::F(bf)]);
                m.call("arith", "rem", crate::gen::SP_FT[spi % 4], Some(2), &[A::F(af), A::R(1)]);
                m.call("arith", "div_euclid", "inh", Some(3), &[A::R(0), A::R(1)]);
                m.call("arith", "rem_euclid", "inh", Some(4), &[A::R(0), A::R(1)]);
            }
        }
    }
    for e in [0, -3, 40] {
        for (bhi, blo) in values_at(e) {
            for sb in [1.0, -1.0] {
                for k in ks {
                    for sk in [1.0, -1.0] {
                        for pert in [0i32, 1, -1, 94, -94, 96, -96, 100, -100] {
                            if !deal.take() {
                                continue;
                            }
                            m.group("lattice");
                            if !m.load(1, sb * bhi, sb * blo) {
                                continue;
                            }
                            // a = k * b (+- one unit of the low word), computed by the library itself; the verdict on
                            // every later call is the specification's
                            m.call("arith", "mul", "vv", Some(0), &[A::R(1), A::F(sk * k)]);
                            if pert != 0 {
                                let t = m.tf(0);
                                let u = if t.lo() != 0.0 { (next_up_mag(t.lo()) - t.lo()).abs() } else { t.hi().abs() * pow2(-106) };
                                // +-1: one unit of the low word; +-94, 96, 100: a relative 2^-94, 2^-96, 2^-100 (around the
                                // 2^-98 proviso below which an adjacent quotient is tolerated)
                                let d = if pert.abs() == 1 { pert as f64 * u } else { (pert as f64).signum() * t.hi().abs() * pow2(-(pert.abs() as i32)) };
                                m.call("arith", "add", "vv", Some(0), &[A::R(0), A::F(d)]);
                            }
                            spi += 1;
                            m.call("arith", "rem", SP_TT[spi % SP_TT.len()], Some(2), &[A::R(0), A::R(1)]);
                            m.call("arith", "div_euclid", "inh", Some(3), &[A::R(0), A::R(1)]);
                            m.call("arith", "rem_euclid", "inh", Some(4), &[A::R(0), A::R(1)]);
                            if blo == 0.0 || spi % 4 == 0 {
                                m.call("arith", "rem", SP_TT[(spi / 6) % SP_TT.len()], Some(5), &[A::R(0), A::F(sb * bhi)]);
                            }
                        }
                    }
                }
            }
        }
    }
}

/// exp at the exact NODES of its lookup tables (C14, C01): x = y/2 for every integer y the reduction can produce
/// (the exp(1/2)^y and exp(16)^a tables are then used bare or as a single product, with a zero residual), x = n/128
/// for every entry of the exp(n/128)-1 table, every exp(16)^a entry combined with every n/128, each with a zero
/// low word and with a tiny low word of either sign; the hyperbolic functions at the same nodes
fn exp_nodes(m: &mut M, n: u64) {
    let mut deal = Deal { idx: 0, n: n.max(1), slice: m.slice };
    // (x, on a main axis of the tables?)
    let mut xs: Vec<(f64, bool)> = Vec::new();
    for y in -1500..=1420 {
        xs.push((y as f64 / 2.0, true));
    }
    // midpoints between neighbouring n/128 nodes (the choice of the node is a rounding tie there), alone and on top
    // of a few y/2
    for k in -32..32 {
        let mid = (2 * k + 1) as f64 / 256.0;
        for y in [0.0, 0.5, -0.5, 1.0, 7.5, -33.0, 640.0] {
            xs.push((y + mid, true));
        }
    }
    for k in -32..=32 {
        xs.push((k as f64 / 128.0, true));
        for a in -44..=44 {
            xs.push((a as f64 * 16.0 + k as f64 / 128.0, false));
        }
    }
    for (x, axis) in xs {
        for lo in [0.0, pow2(-80), -pow2(-80), pow2(-1074)] {
            if !axis && lo != 0.0 {
                continue;
            }
            if !deal.take() {
                continue;
            }
            m.group_every(40, "nodes");
            let lo = if x == 0.0 && lo != 0.0 { 0.0 } else { lo * if x.abs() > 1.0 { x.abs() } else { 1.0 } };
            let lo = if lo.abs() < pow2(-1074) { lo.signum() * pow2(-1074) * if lo == 0.0 { 0.0 } else { 1.0 } } else { lo };
            if !m.load(0, x, lo) {
                continue;
            }
            m.call("elem", "exp", "inh", Some(1), &[A::R(0)]);
            if x.abs() <= 700.0 && deal.idx % 8 == 0 {
                m.call("elem", "sinh", "inh", Some(1), &[A::R(0)]);
                m.call("elem", "cosh", "inh", Some(1), &[A::R(0)]);
                m.call("elem", "tanh", "inh", Some(1), &[A::R(0)]);
                m.call("elem", "exp_m1", "inh", Some(1), &[A::R(0)]);
            }
        }
    }
}

/// mathematical functions over every structural value (significand shapes x low-word classes) at the exponents
/// where their behaviour changes: special high words (1, powers of two, 1.5, all ones) WITH every kind of low word,
/// both signs where the domain allows
fn functions(m: &mut M, n: u64, group: &str) {
    let mut deal = Deal { idx: 0, n: n.max(1), slice: m.slice };
    let table: Vec<(&str, Vec<i32>, bool)> = match group {
        "exp" => vec![
            ("exp", vec![-1000, -980, -60, -30, -9, -8, -7, -3, -2, -1, 0, 1, 2, 3, 5, 8, 9], true),
            ("exp_m1", vec![-1000, -980, -60, -30, -9, -8, -7, -2, -1, 0, 1, 5, 9], true),
            ("exp2", vec![-60, -2, -1, 0, 1, 2, 5, 9], true),
        ],
        "log" => vec![
            ("ln", vec![-1000, -500, -60, -2, -1, 0, 1, 2, 52, 53, 60, 500, 959], false),
            ("log2", vec![-1000, -60, -1, 0, 1, 53, 959], false),
            ("log10", vec![-1000, -60, -1, 0, 1, 3, 53, 959], false),
            ("ln_1p", vec![-1000, -980, -60, -30, -9, -8, -7, -2, -1, 0, 1, 52, 53, 54, 60, 94, 107, 500], true),
        ],
        "trig" => vec![
            ("sin", vec![-1000, -980, -60, -30, -2, -1, 0, 1, 2, 3, 10, 19], true),
            ("cos", vec![-60, -30, -2, -1, 0, 1, 2, 3, 10, 19], true),
            ("tan", vec![-1000, -980, -60, -30, -2, -1, 0, 1, 2, 3, 10, 19], true),
        ],
        "ang" => vec![
            ("to_degrees", vec![-449, -60, -7, -6, -1, 0, 1, 5, 7, 8, 448], true),
            ("to_radians", vec![-449, -60, -1, 0, 1, 5, 6, 7, 8, 448], true),
        ],
        "atrig" => vec![
            ("asin", vec![-1000, -980, -60, -30, -3, -2, -1, 0], true),
            ("acos", vec![-60, -30, -3, -2, -1, 0], true),
            ("atan", vec![-1000, -980, -60, -30, -3, -2, -1, 0, 1, 2, 3, 10, 59], true),
        ],
        _ => vec![
            ("sinh", vec![-1000, -980, -60, -30, -9, -2, -1, 0, 1, 2, 5, 9], true),
            ("cosh", vec![-60, -30, -9, -2, -1, 0, 1, 2, 5, 9], true),
            ("tanh", vec![-1000, -980, -60, -30, -9, -2, -1, 0, 1, 2, 5], true),
            ("asinh", vec![-1000, -980, -60, -30, -2, -1, 0, 1, 2, 27, 28, 29, 59], true),
            ("acosh", vec![0, 1, 2, 27, 28, 29, 59], true),
            ("atanh", vec![-1000, -980, -60, -30, -3, -2, -1], true),
        ],
    };
    for (op, exps, both) in table {
        for e in exps {
            for (hi, lo) in values_at(e) {
                for s in [1.0, -1.0] {
                    if s < 0.0 && !both {
                        continue;
                    }
                    if !deal.take() {
                        continue;
                    }
                    m.group_every(30, "lattice");
                    if !m.load(0, s * hi, s * lo) {
                        continue;
                    }
                    m.call(if group == "ang" { "misc" } else { "elem" }, op, "inh", Some(1), &[A::R(0)]);
                }
            }
        }
    }
}

/// roots and integer powers (C13) over every structural value: sqrt / cbrt at both parities of the exponent and at
/// the ends of the stated range, hypot against partners at the exponent differences where one square vanishes
/// below the other, powi for every small exponent, the powers of two and the extreme exponents, both signs of
/// the base and of the exponent, with the reciprocal needed by the bit-identity powi(x,-n) == recip(powi(x,n))
fn powers(m: &mut M, n: u64) {
    let mut deal = Deal { idx: 0, n: n.max(1), slice: m.slice };
    for e in [-899, -500, -3, -2, -1, 0, 1, 2, 3, 500, 898] {
        for (hi, lo) in values_at(e) {
            if !deal.take() {
                continue;
            }
            m.group_every(30, "lattice");
            if !m.load(0, hi, lo) {
                continue;
            }
            m.call("elem", "sqrt", "inh", Some(1), &[A::R(0)]);
            m.call("elem", "cbrt", "inh", Some(1), &[A::R(0)]);
            m.call("arith", "neg", "v", Some(2), &[A::R(0)]);
            m.call("elem", "cbrt", "inh", Some(1), &[A::R(2)]);
            m.call("elem", "sqrt", "inh", Some(1), &[A::R(2)]);
        }
    }
    for e in [-399, -1, 0, 1, 398] {
        for (hi, lo) in values_at(e) {
            for d in [0, 1, -1, 26, -27, 52, -53, 54, -60, 300, -300, 520, -520, 790, -790] {
                for sig in [SIGS[0], SIGS[3], SIGS[9]] {
                    if !deal.take() {
                        continue;
                    }
                    let b = word(sig, e + d, false);
                    if !b.is_finite() || exponent(b).abs() > 399 {
                        continue;
                    }
                    m.group_every(30, "lattice");
                    // (signs: the structural leg positive or negative, the other leg negative)
                    let sa = if (deal.idx / 3) % 2 == 0 { 1.0 } else { -1.0 };
                    if !m.load(0, sa * hi, sa * lo) || !m.load(1, -b, 0.0) {
                        continue;
                    }
                    m.call("elem", "hypot", "inh", Some(2), &[A::R(0), A::R(1)]);
                    m.call("elem", "hypot", "inh", Some(2), &[A::R(1), A::R(0)]);
                }
            }
        }
    }
    let ns: [i64; 22] = [0, 1, 2, 3, 4, 5, 7, 8, 15, 16, 17, 31, 32, 33, 64, 100, 127, 1000, 65536, 1 << 30, i32::MAX as i64, 1 << 31];
    for e in [-1, 0, 1, -30, 30] {
        for (hi, lo) in values_at(e) {
            for s in [1.0, -1.0] {
                for k in ns {
                    if !deal.take() {
                        continue;
                    }
                    m.group("lattice");
                    if !m.load(0, s * hi, s * lo) {
                        continue;
                    }
                    if k <= i32::MAX as i64 {
                        m.call("pow", "powi", "inh", Some(1), &[A::R(0), A::I(false, k as u128, "i32")]);
                        m.call("arith", "recip", "inh", Some(2), &[A::R(1)]);
                    }
                    if k > 0 {
                        m.call("pow", "powi", "inh", Some(3), &[A::R(0), A::I(true, k as u128, "i32")]);
                    }
                }
            }
        }
    }
}

/// every exponent of the format (C06, C07): power-of-two high words - where the admissible low word changes with
/// its sign - with opposite-sign low words at the quarter-ulp limit and in the subnormal range, compared with
/// their neighbours, through the validity-dependent operations (comparisons, min, max, signum, is_valid)
fn pow2_sweep(m: &mut M, n: u64) {
    let mut deal = Deal { idx: 0, n: n.max(1), slice: m.slice };
    for e in -1021..=1023 {
        for s in [1.0, -1.0] {
            let h = s * pow2(e);
            let quarter = pow2(e - 54);
            let mut los = vec![-s * quarter, -s * next_down_mag(quarter), -s * pow2(-1074), -s * pow2(-1023), s * pow2(e - 53), -s * next_up_mag(quarter)];
            los.retain(|x| x.is_finite() && *x != 0.0);
            for lo in los {
                if !deal.take() {
                    continue;
                }
                m.group("lattice");
                m.call("base", "no_overlap", "fn", None, &[A::F(h), A::F(lo)]);
                // built by the error-free sum, which does not consult the validity predicate (a checked constructor
                // that wrongly rejects the pair would otherwise hide it from the comparisons below)
                m.call("arith", "new_add", "inh", Some(0), &[A::F(h), A::F(lo)]);
                let t = m.tf(0);
                if t.hi().to_bits() != h.to_bits() || t.lo().to_bits() != lo.to_bits() {
                    continue;
                }
                m.load(1, h, 0.0);
                m.load(2, s * next_down_mag(pow2(e)), 0.0);
                m.call("base", "is_valid", "inh", None, &[A::R(0)]);
                for (x, y) in [(0, 1), (1, 0), (0, 2), (2, 0)] {
                    for op in ["lt", "le", "eq", "pcmp"] {
                        m.call("base", op, "op", None, &[A::R(x), A::R(y)]);
                    }
                }
                m.call("base", "min", "inh", Some(3), &[A::R(0), A::R(1)]);
                m.call("base", "max", "inh", Some(3), &[A::R(2), A::R(0)]);
                m.call("base", "signum", "inh", Some(3), &[A::R(0)]);
                m.call("base", "abs", "inh", Some(3), &[A::R(0)]);
            }
        }
    }
}

/// EVERY exponent of the format for the operations whose code manipulates exponents or has exactness claims at
/// powers of two: exp2 at every integer and half-integer, log2 / ln / sqrt / cbrt / recip of every power of two,
/// scaling of a generic value by every power of two (product and quotient), conversion of every power of two to f32
fn exponent_sweep(m: &mut M, n: u64) {
    let mut deal = Deal { idx: 0, n: n.max(1), slice: m.slice };
    for k in -1085..=1030 {
        if !deal.take() {
            continue;
        }
        m.group("lattice");
        m.load(0, k as f64, 0.0);
        m.call("elem", "exp2", "inh", Some(1), &[A::R(0)]);
        m.load(0, k as f64 + 0.5, 0.0);
        m.call("elem", "exp2", "inh", Some(1), &[A::R(0)]);
        if (-1074..=1023).contains(&k) {
            let p = pow2(k);
            if !m.load(2, p, 0.0) {
                continue;
            }
            m.call("elem", "log2", "inh", Some(1), &[A::R(2)]);
            m.call("elem", "ln", "inh", Some(1), &[A::R(2)]);
            m.call("elem", "sqrt", "inh", Some(1), &[A::R(2)]);
            m.call("elem", "cbrt", "inh", Some(1), &[A::R(2)]);
            m.call("arith", "recip", "inh", Some(1), &[A::R(2)]);
            m.call("conv", "to_f32", "From_v", None, &[A::R(2)]);
            // a generic two-word value scaled by 2^k, both ways, while everything stays inside the stated ranges
            if k.abs() <= 440 {
                m.load(3, 1.2345678901234567, 3.1e-17 * 0.7);
                if !m.tf(3).is_valid() {
                    m.load(3, 1.2345678901234567, 1e-17);
                }
                m.call("arith", "mul", "vv", Some(1), &[A::R(3), A::R(2)]);
                m.call("arith", "mul", "vv", Some(1), &[A::R(3), A::F(p)]);
                m.call("arith", "div", "vv", Some(1), &[A::R(3), A::R(2)]);
                m.call("arith", "div", "vv", Some(1), &[A::R(3), A::F(p)]);
                m.call("arith", "div", "vv", Some(1), &[A::F(p), A::R(3)]);
            }
        }
    }
}

pub fn run(m: &mut M, _r: &mut Rng, family: &str, n: u64) -> bool {
    match family {
        "lattice_add" => binary(m, "add", n, &[(0, 0), (-1000, 0), (999, 0), (-1020, 0)]),
        // (the last pairs: products / quotients in the gradual-underflow zone, operands inside C01's domain)
        "lattice_mul" => binary(m, "mul", n, &[(0, 0), (200, -200), (-440, 440), (-500, -515), (-480, -490)]),
        "lattice_div" => binary(m, "div", n, &[(0, 0), (200, 200), (-440, -440), (-520, 495)]),
        "lattice_cmp" => binary(m, "cmp", n, &[(0, 0), (1, 0), (-1000, 0), (999, 0), (-1021, 0)]),
        "lattice_un" => unary(m, n, false),
        "lattice_frac" => unary(m, n, true),
        "lattice_new" => new_words(m, n),
        "lattice_rem" => rems(m, n),
        "exp_nodes" => exp_nodes(m, n),
        "pow2_sweep" => pow2_sweep(m, n),
        "exponent_sweep" => exponent_sweep(m, n),
        "lattice_pow" => powers(m, n),
        "lattice_exp" => functions(m, n, "exp"),
        "lattice_log" => functions(m, n, "log"),
        "lattice_trig" => functions(m, n, "trig"),
        "lattice_atrig" => functions(m, n, "atrig"),
        "lattice_hyp" => functions(m, n, "hyp"),
        "lattice_ang" => functions(m, n, "ang"),
        _ => return false,
    }
    true
}
