//! Re-execute the calls recorded in a trace (or a replay file): same operations, same operand
//! bit patterns, same register indices; results are recomputed by the real code.
use crate::enc;
use crate::mach::{A, M};
use std::io::BufRead;

fn static_ty(s: &str) -> &'static str {
    match s {
        "i8" => "i8", "i16" => "i16", "i32" => "i32", "i64" => "i64", "i128" => "i128", "isize" => "isize",
        "u8" => "u8", "u16" => "u16", "u32" => "u32", "u64" => "u64", "u128" => "u128", "usize" => "usize",
        _ => "i32",
    }
}

pub fn arg_of(v: &serde_json::Value) -> A {
    match v["t"].as_str().unwrap() {
        "r" => A::R(v["i"].as_u64().unwrap() as usize),
        "f" => A::F(enc::word_to_f64(&v["w"])),
        "f32" => A::F32(enc::word_to_f64(&v["w"]) as f32),
        "i" => A::I(v["v"]["s"].as_u64().unwrap() == 1, enc::limbs_to_u128(&v["v"]["m"]), static_ty(v["ty"].as_str().unwrap())),
        "s" => A::S(v["v"].as_str().unwrap().to_string()),
        "fl" => A::FL(v["v"].as_array().unwrap().iter().map(enc::word_to_f64).collect()),
        "sl" => A::SL(v["v"].as_array().unwrap().iter().map(|x| x.as_str().unwrap().to_string()).collect()),
        "rl" => A::RL(v["v"].as_array().unwrap().iter().map(|x| x.as_u64().unwrap() as usize).collect()),
        t => panic!("bad arg tag {}", t),
    }
}

pub fn replay(m: &mut M, path: &str) {
    let f = std::fs::File::open(path).unwrap();
    for line in std::io::BufReader::new(f).lines() {
        let line = line.unwrap();
        if line.trim().is_empty() {
            continue;
        }
        let v: serde_json::Value = serde_json::from_str(&line).unwrap();
        let op = v["op"].as_str().unwrap();
        if op == "group" {
            m.group(v["tag"].as_str().unwrap_or(""));
            continue;
        }
        m.group_every(400, "replay");
        let args: Vec<A> = v["a"].as_array().unwrap().iter().map(arg_of).collect();
        let d = v["d"].as_i64().unwrap();
        m.call(v["fam"].as_str().unwrap(), op, v["sp"].as_str().unwrap(), if d >= 0 { Some(d as usize) } else { None }, &args);
    }
}
