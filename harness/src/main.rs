//! tfh — conformance harness for twofloat: drives the real crate, records one trace event per
//! public API call.  Usage:
//!   tfh gen <family> <n> <out.ndjson>      (seed from VERIF_SEED, default 1)
//!   tfh replay <in.ndjson> <out.ndjson>    re-execute the calls of a recorded trace
//!   tfh enc-selftest                        encoder/decoder round trip on random bit patterns
mod enc;
mod exec;
mod gen;
mod gen2;
mod gen3;
mod gen4;
mod gen5;
mod mach;
mod replay;
mod rng;
#[cfg(feature = "serde")]
mod serde_ops;

use std::io::BufWriter;

#[cfg(feature = "std")]
pub const CFG: &str = "std";
#[cfg(not(feature = "std"))]
pub const CFG: &str = "nostd";

fn main() {
    // panics in the code under test are data, not noise
    std::panic::set_hook(Box::new(|_| {}));
    let args: Vec<String> = std::env::args().collect();
    let seed: u64 = std::env::var("VERIF_SEED").ok().and_then(|s| s.parse().ok()).unwrap_or(1);
    match args.get(1).map(|s| s.as_str()) {
        Some("gen") => {
            let family = &args[2];
            let n: u64 = args[3].parse().unwrap();
            let f = std::fs::File::create(&args[4]).unwrap();
            let mut m = mach::M::new(Box::new(BufWriter::new(f)), CFG);
            // the family name is mixed into the seed so that families are independent streams
            let mut h: u64 = seed;
            for b in family.bytes() {
                h = h.wrapping_mul(0x100000001b3) ^ b as u64;
            }
            let mut r = rng::Rng::new(h);
            gen::run(&mut m, &mut r, family, n);
            use std::io::Write;
            m.out.flush().unwrap();
            println!("events={}", m.events);
        }
        Some("replay") => {
            let f = std::fs::File::create(&args[3]).unwrap();
            let mut m = mach::M::new(Box::new(BufWriter::new(f)), CFG);
            replay::replay(&mut m, &args[2]);
            use std::io::Write;
            m.out.flush().unwrap();
            println!("events={}", m.events);
        }
        Some("enc-selftest") => {
            let mut r = rng::Rng::new(seed);
            for _ in 0..200000 {
                let x = f64::from_bits(r.next());
                let j: serde_json::Value = serde_json::from_str(&enc::word(x)).unwrap();
                let y = enc::word_to_f64(&j);
                if !(x.to_bits() == y.to_bits() || (x.is_nan() && y.is_nan())) {
                    println!("MISMATCH {:x} {:x}", x.to_bits(), y.to_bits());
                    std::process::exit(1);
                }
            }
            println!("enc-selftest ok");
        }
        _ => {
            eprintln!("usage: tfh gen <family> <n> <out> | replay <in> <out> | enc-selftest");
            std::process::exit(2);
        }
    }
}
