//! Generator families for text output and serde (C20).
use crate::mach::M;
use crate::rng::Rng;

pub fn run(_m: &mut M, _r: &mut Rng, _family: &str, _n: u64) -> bool {
    false
}
