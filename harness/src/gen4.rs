//! Generator families for text output and serde (C20).
use crate::gen::load_valid;
use crate::mach::{A, M};
use crate::rng::*;

fn sgn(r: &mut Rng) -> f64 {
    if r.coin() {
        1.0
    } else {
        -1.0
    }
}

fn load_text_case(m: &mut M, r: &mut Rng, d: usize) {
    loop {
        let (hi, lo) = match r.below(10) {
            0 => (sgn(r) * r.f64_in(-5, 5).abs(), if r.coin() { 0.0 } else { -0.0 }), // negative-zero low word
            1 => {
                let h = r.f64_in(-1020, -990);
                (h, sgn(r) * f64::from_bits(r.next() & ((1u64 << 30) - 1))) // subnormal low word
            }
            2 => {
                let h = r.f64_in(300, 1000); // needs many digits / scientific notation
                (h, lo_candidate(r, h))
            }
            3 => {
                let h = r.f64_in(-1000, -300);
                (h, lo_candidate(r, h))
            }
            4 => (if r.coin() { 0.0 } else { -0.0 }, if r.coin() { 0.0 } else { -0.0 }),
            5 => {
                let h = sgn(r) * (r.below(100000) as f64) / 8.0;
                (h, lo_candidate(r, h))
            }
            _ => {
                let h = r.f64_in(-60, 60);
                (h, lo_candidate(r, h))
            }
        };
        if m.load(d, hi, lo) {
            return;
        }
    }
}

pub fn fmt(m: &mut M, r: &mut Rng, n: u64) {
    for _ in 0..n {
        m.group("fmt");
        load_text_case(m, r, 0);
        for tr in ["display", "lower", "upper"] {
            for plus in ["", "+"] {
                let prec: i64 = *r.pick(&[-1, -1, 0, 1, 17, 40, 5]);
                for p in [-1i64, prec] {
                    if p == -1 && prec == -1 && plus == "+" && r.coin() {
                        continue;
                    }
                    m.call("text", "fmt", "fmt", None, &[A::R(0), A::S(tr.into()), A::S(plus.into()), A::I(p < 0, p.unsigned_abs() as u128, "i32")]);
                }
            }
        }
    }
    // entry points outside the twenty properties (classification, decode): behaviour recorded as X01
    for _ in 0..(n / 4 + 1) {
        m.group("extras");
        load_text_case(m, r, 1);
        if r.below(5) == 0 {
            let (op1, a1, b1) = *r.pick(&[("new_add", f64::INFINITY, 1.0), ("new_add", f64::NAN, 1.0), ("new_mul", 1e300, 1e300), ("new_add", 0.0, -0.0)]);
            m.call("arith", op1, "inh", Some(1), &[A::F(a1), A::F(b1)]);
        }
        for sp in ["Float", "FloatCore"] {
            m.call("text", "classify", sp, None, &[A::R(1)]);
        }
        for op in ["is_nan", "is_infinite", "is_finite", "is_normal", "is_zero", "integer_decode"] {
            m.call("text", op, "Float", None, &[A::R(1)]);
        }
    }
    m.group("misc_text");
    m.call("text", "err_display", "fmt", None, &[A::S("conversion".into())]);
    m.call("text", "err_display", "fmt", None, &[A::S("parse".into())]);
    m.call("text", "from_str_radix", "Num", None, &[A::S("1.5".into())]);
}

#[cfg(feature = "serde")]
pub fn serde_family(m: &mut M, r: &mut Rng, n: u64) {
    let sl = |v: &[&str]| A::SL(v.iter().map(|s| s.to_string()).collect());
    for i in 0..n {
        m.group("serde");
        // --- valid values: serialize, round trip, deserialize in every well-formed shape
        if r.coin() {
            load_text_case(m, r, 0);
        } else {
            load_valid(m, r, 0, -300, 300);
        }
        let x = m.tf(0);
        m.call("serde", "ser_json", "json", None, &[A::R(0)]);
        m.call("serde", "ser_tokens", "serde_test", None, &[A::R(0)]);
        m.call("serde", "rt_json", "json", Some(1), &[A::R(0)]);
        m.call("serde", "de_seq", "value", Some(1), &[A::FL(vec![x.hi(), x.lo()])]);
        m.call("serde", "de_map", "value", Some(1), &[sl(&["hi", "lo"]), A::FL(vec![x.hi(), x.lo()])]);
        m.call("serde", "de_map", "value", Some(1), &[sl(&["lo", "hi"]), A::FL(vec![x.lo(), x.hi()])]);
        // the same maps through a streaming MapAccess that does not police unread entries itself
        m.call("serde", "de_map", "stream", Some(1), &[sl(&["hi", "lo"]), A::FL(vec![x.hi(), x.lo()])]);
        m.call("serde", "de_map", "stream", Some(1), &[sl(&["lo", "hi"]), A::FL(vec![x.lo(), x.hi()])]);
        m.call("serde", "de_json", "json", Some(1), &[A::S("seq".into()), sl(&[]), A::FL(vec![x.hi(), x.lo()])]);
        m.call("serde", "de_json", "json", Some(1), &[A::S("map".into()), sl(&["lo", "hi"]), A::FL(vec![x.lo(), x.hi()])]);
        // --- arbitrary (hi, lo) pairs, overlapping or not, non-finite
        let a = match r.below(6) {
            0 => *r.pick(&[f64::INFINITY, f64::NEG_INFINITY, f64::NAN, 0.0, -0.0]),
            _ => r.f64_in(-300, 300),
        };
        let b = match r.below(8) {
            0 => *r.pick(&[f64::INFINITY, f64::NAN, f64::NEG_INFINITY]),
            1 => r.f64_in(-300, 300),
            2 => a,
            _ => lo_candidate(r, a),
        };
        m.call("serde", "de_seq", "value", Some(2), &[A::FL(vec![a, b])]);
        m.call("serde", "de_map", "value", Some(2), &[sl(&["hi", "lo"]), A::FL(vec![a, b])]);
        m.call("serde", "de_map", "value", Some(2), &[sl(&["lo", "hi"]), A::FL(vec![b, a])]);
        m.call("serde", "de_map", "stream", Some(2), &[sl(&["hi", "lo"]), A::FL(vec![a, b])]);
        m.call("serde", "de_map", "stream", Some(2), &[sl(&["lo", "hi"]), A::FL(vec![b, a])]);
        if a.is_finite() && b.is_finite() {
            m.call("serde", "de_json", "json", Some(2), &[A::S("map".into()), sl(&["hi", "lo"]), A::FL(vec![a, b])]);
            m.call("serde", "de_json", "json", Some(2), &[A::S("seq".into()), sl(&[]), A::FL(vec![a, b])]);
        }
        // --- malformed shapes: missing, duplicate, unknown field; short sequences
        if i % 2 == 0 {
            let shapes: [&[&str]; 15] = [&["hi"], &["lo"], &[], &["hi", "hi", "lo"], &["hi", "lo", "lo"], &["hi", "lo", "zz"], &["zz", "hi", "lo"], &["hi", "hi"], &["secs", "nanos"],
                &["hi", "lo", "hi"], &["lo", "hi", "hi"], &["lo", "hi", "lo"], &["lo", "hi", "zz"], &["hi", "zz", "lo"], &["lo", "lo"]];
            let sh = *r.pick(&shapes);
            let vals: Vec<f64> = sh.iter().map(|k| if *k == "lo" { x.lo() } else { x.hi() }).collect();
            m.call("serde", "de_map", "value", Some(3), &[sl(sh), A::FL(vals.clone())]);
            m.call("serde", "de_map", "stream", Some(3), &[sl(sh), A::FL(vals.clone())]);
            m.call("serde", "de_json", "json", Some(3), &[A::S("map".into()), sl(sh), A::FL(vals.clone())]);
            // the same malformed shapes with special words in some slots (NaN / infinity / zeros cannot be
            // written in JSON, so only through serde's value deserializer)
            let mut v2 = vals.clone();
            for slot in v2.iter_mut() {
                if r.below(3) == 0 {
                    *slot = *r.pick(&[f64::NAN, f64::INFINITY, f64::NEG_INFINITY, 0.0, -0.0]);
                }
            }
            if !v2.is_empty() && r.coin() {
                v2[0] = f64::NAN;
            }
            m.call("serde", "de_map", "stream", Some(3), &[sl(sh), A::FL(v2.clone())]);
            m.call("serde", "de_map", "value", Some(3), &[sl(sh), A::FL(v2)]);
            let short: Vec<f64> = if r.coin() { vec![x.hi()] } else { vec![] };
            m.call("serde", "de_seq", "value", Some(3), &[A::FL(short.clone())]);
            m.call("serde", "de_json", "json", Some(3), &[A::S("seq".into()), sl(&[]), A::FL(short)]);
        }
    }
}

pub fn run(m: &mut M, r: &mut Rng, family: &str, n: u64) -> bool {
    match family {
        "fmt" => fmt(m, r, n),
        #[cfg(feature = "serde")]
        "serde" => serde_family(m, r, n),
        _ => return crate::gen5::run(m, r, family, n),
    }
    true
}
