//! serde entry points of the crate (feature "serde"): Serialize through serde_json and
//! serde_test tokens, Deserialize through serde's own value deserializers (which can present
//! NaN / infinite words and arbitrary key orders) and through serde_json text.
use crate::enc;
use crate::exec::{Out, V};
use serde::de::value::{Error as VErr, MapDeserializer, SeqDeserializer};
use serde::Deserialize;
use twofloat::TwoFloat;

fn tf(v: &V) -> TwoFloat {
    match v {
        V::TF(x) => *x,
        _ => panic!("harness: expected TwoFloat"),
    }
}
fn fl(v: &V) -> Vec<f64> {
    match v {
        V::FL(x) => x.clone(),
        _ => panic!("harness: expected f64 list"),
    }
}
fn sl(v: &V) -> Vec<String> {
    match v {
        V::SL(x) => x.clone(),
        _ => panic!("harness: expected string list"),
    }
}
fn res(r: Result<TwoFloat, String>) -> Out {
    match r {
        Ok(x) => Out::TF(x),
        Err(_) => Out::Err,
    }
}

pub fn json_text(form: &str, keys: &[String], vals: &[f64]) -> String {
    let nums: Vec<String> = vals.iter().map(|x| format!("{:?}", x)).collect();
    if form == "seq" {
        format!("[{}]", nums.join(","))
    } else {
        let kv: Vec<String> = keys.iter().zip(nums.iter()).map(|(k, v)| format!("\"{}\":{}", k, v)).collect();
        format!("{{{}}}", kv.join(","))
    }
}

/// A streaming map input that hands the visitor one entry at a time and - unlike serde's
/// `MapDeserializer` or serde_json - does NOT itself complain about entries the visitor leaves
/// unread: whether a trailing duplicate / unknown field is rejected is then decided by the crate's
/// visitor alone (spelling "stream" of `de_map`).
struct Stream {
    items: Vec<(String, f64)>,
    pos: usize,
}
impl<'de> serde::de::MapAccess<'de> for Stream {
    type Error = VErr;
    fn next_key_seed<K: serde::de::DeserializeSeed<'de>>(&mut self, seed: K) -> Result<Option<K::Value>, VErr> {
        match self.items.get(self.pos) {
            Some((k, _)) => seed.deserialize(serde::de::value::StrDeserializer::new(k)).map(Some),
            None => Ok(None),
        }
    }
    fn next_value_seed<S: serde::de::DeserializeSeed<'de>>(&mut self, seed: S) -> Result<S::Value, VErr> {
        let x = self.items[self.pos].1;
        self.pos += 1;
        seed.deserialize(serde::de::value::F64Deserializer::new(x))
    }
}

pub fn exec(op: &str, sp: &str, v: &[V]) -> Out {
    match op {
        "ser_json" => {
            let x = tf(&v[0]);
            let s = serde_json::to_string(&x).unwrap();
            // read back the emitted text: key order and the numerals as f64
            let val: serde_json::Value = serde_json::from_str(&s).unwrap();
            let (mut keys, mut vals) = (Vec::new(), Vec::new());
            // serde_json's Value sorts keys; recover the emitted order from the text
            let mut order: Vec<(usize, String)> = val.as_object().unwrap().keys().map(|k| (s.find(&format!("\"{}\"", k)).unwrap(), k.clone())).collect();
            order.sort();
            for (_, k) in order {
                // parse the numeral text itself (serde_json's f64 parser) to keep -0.0
                let start = s.find(&format!("\"{}\":", k)).unwrap() + k.len() + 3;
                let rest = &s[start..];
                let end = rest.find(|c| c == ',' || c == '}').unwrap();
                let w: f64 = rest[..end].parse().unwrap();
                keys.push(enc::jstr(&k));
                vals.push(enc::word(w));
            }
            Out::Raw(format!("{{\"t\":\"ser\",\"keys\":[{}],\"vals\":[{}],\"c\":{}}}", keys.join(","), vals.join(","), enc::chars(&s)))
        }
        "ser_tokens" => {
            let x = tf(&v[0]);
            use serde_test::Token;
            serde_test::assert_ser_tokens(
                &x,
                &[Token::Struct { name: "TwoFloat", len: 2 }, Token::Str("hi"), Token::F64(x.hi()), Token::Str("lo"), Token::F64(x.lo()), Token::StructEnd],
            );
            Out::B(true)
        }
        "rt_json" => {
            let x = tf(&v[0]);
            let s = serde_json::to_string(&x).unwrap();
            res(serde_json::from_str::<TwoFloat>(&s).map_err(|e| e.to_string()))
        }
        "de_seq" => {
            let vals = fl(&v[0]);
            let de: SeqDeserializer<_, VErr> = SeqDeserializer::new(vals.into_iter());
            res(TwoFloat::deserialize(de).map_err(|e| e.to_string()))
        }
        "de_map" => {
            let keys = sl(&v[0]);
            let vals = fl(&v[1]);
            let pairs: Vec<(String, f64)> = keys.into_iter().zip(vals.into_iter()).collect();
            if sp == "stream" {
                let de = serde::de::value::MapAccessDeserializer::new(Stream { items: pairs, pos: 0 });
                return res(TwoFloat::deserialize(de).map_err(|e| e.to_string()));
            }
            let de: MapDeserializer<_, VErr> = MapDeserializer::new(pairs.into_iter());
            res(TwoFloat::deserialize(de).map_err(|e| e.to_string()))
        }
        "de_json" => {
            let form = match &v[0] {
                V::S(s) => s.clone(),
                _ => panic!("harness: expected form"),
            };
            let keys = sl(&v[1]);
            let vals = fl(&v[2]);
            let text = json_text(&form, &keys, &vals);
            res(serde_json::from_str::<TwoFloat>(&text).map_err(|e| e.to_string()))
        }
        _ => panic!("harness: unknown serde op"),
    }
}
