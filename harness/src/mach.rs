//! The logging register machine: every public API call made through `M::call` is one trace event.

use crate::enc;
use crate::exec::{exec, Out, V};
use std::io::Write;
use twofloat::TwoFloat;

pub const NREGS: usize = 8;

#[derive(Clone, Debug)]
pub enum A {
    R(usize),                    // register holding a TwoFloat
    F(f64),                      // f64 literal
    F32(f32),                    // f32 literal
    I(bool, u128, &'static str), // integer literal: sign, magnitude, type name
    S(String),                   // string literal (names, flags)
    FL(Vec<f64>),                // list of f64
    RL(Vec<usize>),              // list of registers
    SL(Vec<String>),             // list of strings
}

pub struct M {
    pub regs: [TwoFloat; NREGS],
    pub out: Box<dyn Write>,
    pub seq: u64,
    pub cfg: &'static str,
    pub events: u64,
    pub slice: u64,
    pub since_group: u64,
}

fn arg_json(a: &A) -> String {
    match a {
        A::R(i) => format!("{{\"t\":\"r\",\"i\":{}}}", i),
        A::F(x) => format!("{{\"t\":\"f\",\"w\":{}}}", enc::word(*x)),
        A::F32(x) => format!("{{\"t\":\"f32\",\"w\":{}}}", enc::word32(*x)),
        A::I(neg, mag, ty) => format!("{{\"t\":\"i\",\"ty\":\"{}\",\"v\":{}}}", ty, enc::int(*neg, *mag)),
        A::S(s) => format!("{{\"t\":\"s\",\"v\":{}}}", enc::jstr(s)),
        A::FL(v) => format!(
            "{{\"t\":\"fl\",\"v\":[{}]}}",
            v.iter().map(|x| enc::word(*x)).collect::<Vec<_>>().join(",")
        ),
        A::RL(v) => format!(
            "{{\"t\":\"rl\",\"v\":[{}]}}",
            v.iter().map(|x| x.to_string()).collect::<Vec<_>>().join(",")
        ),
        A::SL(v) => format!(
            "{{\"t\":\"sl\",\"v\":[{}]}}",
            v.iter().map(|x| enc::jstr(x)).collect::<Vec<_>>().join(",")
        ),
    }
}

pub fn tf_json(x: &TwoFloat) -> String {
    format!("\"hi\":{},\"lo\":{}", enc::word(x.hi()), enc::word(x.lo()))
}

pub fn out_json(o: &Out) -> String {
    match o {
        Out::TF(x) => format!("{{\"t\":\"tf\",{}}}", tf_json(x)),
        Out::TF2(x, y) => format!(
            "{{\"t\":\"tf2\",{},\"hi2\":{},\"lo2\":{}}}",
            tf_json(x),
            enc::word(y.hi()),
            enc::word(y.lo())
        ),
        Out::F(x) => format!("{{\"t\":\"f\",\"w\":{}}}", enc::word(*x)),
        Out::F32(x) => format!("{{\"t\":\"f32\",\"w\":{}}}", enc::word32(*x)),
        Out::FF(x, y) => format!("{{\"t\":\"ff\",\"w\":{},\"w2\":{}}}", enc::word(*x), enc::word(*y)),
        Out::B(b) => format!("{{\"t\":\"b\",\"v\":{}}}", b),
        Out::Ord(o) => format!(
            "{{\"t\":\"ord\",\"v\":{}}}",
            match o {
                Some(core::cmp::Ordering::Less) => -1,
                Some(core::cmp::Ordering::Equal) => 0,
                Some(core::cmp::Ordering::Greater) => 1,
                None => 2,
            }
        ),
        Out::I(neg, mag) => format!("{{\"t\":\"i\",\"v\":{}}}", enc::int(*neg, *mag)),
        Out::Err => "{\"t\":\"err\"}".to_string(),
        Out::None => "{\"t\":\"none\"}".to_string(),
        Out::Str(s) => format!("{{\"t\":\"str\",\"c\":{}}}", enc::chars(s)),
        Out::Raw(s) => s.clone(),
        Out::Panic(msg) => format!("{{\"t\":\"panic\",\"msg\":{}}}", enc::jstr(msg)),
    }
}

impl M {
    pub fn new(out: Box<dyn Write>, cfg: &'static str) -> Self {
        M {
            regs: [TwoFloat::from(0.0); NREGS],
            out,
            seq: 0,
            cfg,
            events: 0,
            since_group: 0,
            slice: std::env::var("VERIF_SLICE").ok().and_then(|s| s.parse().ok()).unwrap_or(0),
        }
    }

    /// start a new group: the spec forgets its determinism memo
    pub fn group(&mut self, tag: &str) {
        self.seq += 1;
        self.since_group = 0;
        writeln!(self.out, "{{\"op\":\"group\",\"fam\":\"ctl\",\"seq\":{},\"tag\":{}}}", self.seq, enc::jstr(tag)).unwrap();
    }

    pub fn resolve(&self, a: &A) -> V {
        match a {
            A::R(i) => V::TF(self.regs[*i]),
            A::F(x) => V::F(*x),
            A::F32(x) => V::F32(*x),
            A::I(n, m, t) => V::I(*n, *m, t),
            A::S(s) => V::S(s.clone()),
            A::FL(v) => V::FL(v.clone()),
            A::RL(v) => V::TL(v.iter().map(|i| self.regs[*i]).collect()),
            A::SL(v) => V::SL(v.clone()),
        }
    }

    /// Perform one API call, log it, store a TwoFloat result in register `d` (if given).
    pub fn call(&mut self, fam: &str, op: &str, sp: &str, d: Option<usize>, args: &[A]) -> Out {
        let vals: Vec<V> = args.iter().map(|a| self.resolve(a)).collect();
        let o = match std::panic::catch_unwind(std::panic::AssertUnwindSafe(|| exec(op, sp, &vals))) {
            Ok(o) => o,
            Err(e) => {
                let msg = if let Some(s) = e.downcast_ref::<String>() {
                    s.clone()
                } else if let Some(s) = e.downcast_ref::<&str>() {
                    s.to_string()
                } else {
                    "?".to_string()
                };
                Out::Panic(msg)
            }
        };
        self.seq += 1;
        self.events += 1;
        self.since_group += 1;
        let a: Vec<String> = args.iter().map(arg_json).collect();
        writeln!(
            self.out,
            "{{\"op\":\"{}\",\"fam\":\"{}\",\"sp\":\"{}\",\"cfg\":\"{}\",\"seq\":{},\"d\":{},\"a\":[{}],\"res\":{}}}",
            op,
            fam,
            sp,
            self.cfg,
            self.seq,
            d.map(|x| x as i64).unwrap_or(-1),
            a.join(","),
            out_json(&o)
        )
        .unwrap();
        if let Some(d) = d {
            match &o {
                Out::TF(x) => self.regs[d] = *x,
                Out::TF2(x, _) => self.regs[d] = *x,
                _ => {}
            }
        }
        o
    }

    /// checked construction from two words (the only way operands enter the machine)
    pub fn load(&mut self, d: usize, hi: f64, lo: f64) -> bool {
        let sp = if self.seq % 2 == 0 { "tuple" } else { "array" };
        matches!(self.call("load", "try_from", sp, Some(d), &[A::F(hi), A::F(lo)]), Out::TF(_))
    }

    /// bound the size of the spec's determinism memo in generators that have no natural groups
    pub fn group_every(&mut self, n: u64, tag: &str) {
        if self.since_group >= n {
            self.group(tag);
        }
    }

    pub fn tf(&self, i: usize) -> TwoFloat {
        self.regs[i]
    }
}
