//! Seeded generators.  A generator is ordinary Rust code that drives the logging machine; the
//! events it causes are the trace.  Generators decide *which* calls are made, never what the
//! right answer is.

use crate::exec::Out;
use crate::mach::{A, M};
use crate::rng::*;

pub const SP_TT: [&str; 6] = ["vv", "rv", "vr", "rr", "av", "ar"];
pub const SP_FT: [&str; 4] = ["vv", "rv", "vr", "rr"];

/// load a valid TwoFloat with |hi| in [2^emin, 2^emax] (or zero with probability 1/40) into register d
pub fn load_valid(m: &mut M, r: &mut Rng, d: usize, emin: i32, emax: i32) {
    loop {
        if r.below(40) == 0 {
            let z = if r.coin() { 0.0 } else { -0.0 };
            let zl = if r.coin() { 0.0 } else { -0.0 };
            if m.load(d, z, zl) {
                return;
            }
            continue;
        }
        let hi = r.f64_in(emin, emax - 1);
        let lo = lo_candidate(r, hi);
        if m.load(d, hi, lo) {
            return;
        }
        // rejected candidates stay in the trace: the spec checks that the rejection was right
    }
}

/// load a generic valid TwoFloat with hi in the given exponent range
pub fn load_generic(m: &mut M, r: &mut Rng, d: usize, emin: i32, emax: i32) {
    loop {
        let hi = r.f64_uniform_mant(emin, emax - 1);
        let e = exponent(hi);
        let g = r.range(1, 3) as i32;
        let ee = e - 53 - g;
        let lo = if ee < -1022 { 0.0 } else { f64::from_bits(((ee + 1023) as u64) << 52 | (r.next() & ((1u64 << 52) - 1)) | ((r.next() & 1) << 63)) };
        if m.load(d, hi, lo) {
            return;
        }
    }
}

/// a full-width random low word 1..3 binades below half an ulp of `hi`, either sign
fn generic_lo(r: &mut Rng, hi: f64) -> f64 {
    if hi == 0.0 || !hi.is_finite() {
        return 0.0;
    }
    let ee = exponent(hi) - 53 - r.range(1, 3) as i32;
    if ee < -1022 {
        0.0
    } else {
        f64::from_bits(((ee + 1023) as u64) << 52 | (r.next() & ((1u64 << 52) - 1)) | ((r.next() & 1) << 63))
    }
}

/// b := a value that nearly cancels register a at a chosen depth
fn load_cancelling(m: &mut M, r: &mut Rng, d: usize, a: usize) {
    let x = m.tf(a);
    // a third of the time the residual is a few ulps of the high word (the zone in which the low-word sums
    // and their rounding residuals are of the order of the result and every renormalisation step matters)
    let depth = if r.below(3) == 0 { r.range(44, 56) } else { r.range(0, 110) };
    loop {
        let (hi, lo);
        if depth == 0 || x.hi() == 0.0 {
            hi = -x.hi();
            lo = -x.lo();
        } else if depth < 53 {
            // perturb the high word at bit `depth` from the top
            let k = 1u64 << (52 - depth.min(52));
            let bits = x.hi().to_bits();
            let nb = if r.coin() { bits.wrapping_add(k) } else { bits.wrapping_sub(k) };
            hi = -f64::from_bits(nb);
            lo = match r.below(4) {
                0 => -x.lo(),
                1 => lo_candidate(r, hi),
                2 => generic_lo(r, hi),
                _ => 0.0,
            };
        } else {
            // same high word, low words differ
            hi = -x.hi();
            lo = match r.below(4) {
                0 => 0.0,
                1 => {
                    let l = x.lo();
                    if l == 0.0 {
                        lo_candidate(r, hi)
                    } else {
                        let k = 1u64 << r.below(((depth - 52).min(52)) as u64 + 1).min(51);
                        -f64::from_bits(l.to_bits() ^ k)
                    }
                }
                2 => x.lo(),
                _ => lo_candidate(r, hi),
            };
        }
        if hi.is_finite() && hi != 0.0 && exponent(hi) > -1022 && m.load(d, hi, lo) {
            return;
        }
        if m.load(d, -x.hi(), -x.lo()) {
            return;
        }
    }
}

fn f64_operand(m: &M, r: &mut Rng, a: usize, emin: i32, emax: i32) -> f64 {
    let x = m.tf(a);
    match r.below(8) {
        0 => -x.hi(),
        1 => -x.lo(),
        2 => x.hi(),
        3 => pow2(r.range(emin as i64, emax as i64 - 1) as i32) * if r.coin() { 1.0 } else { -1.0 },
        4 => {
            if x.hi() != 0.0 && x.hi().is_finite() {
                -next_up_mag(x.hi())
            } else {
                1.0
            }
        }
        _ => r.f64_in(emin, emax - 1),
    }
}

/// Arithmetic family: constructors, + - * / % in every pairing, recip, euclid, neg.
/// `which` selects the operations ("add", "mul", "div", "rem", "new", "all").
pub fn arith(m: &mut M, r: &mut Rng, n: u64, which: &str) {
    let (emin, emax) = match which {
        "add" | "new" => (-1000, 1000),
        "mul" | "div" => (-450, 450),
        "rem" => (-400, 400),
        _ => (-440, 440),
    };
    for i in 0..n {
        m.group("arith");
        // operand scenario
        let scen = r.below(10);
        match scen {
            0..=2 => {
                if scen == 2 {
                    load_generic(m, r, 0, emin, emax);
                } else {
                    load_valid(m, r, 0, emin, emax);
                }
                load_cancelling(m, r, 1, 0);
            }
            3 => {
                // close exponents
                let e = r.range(emin as i64, emax as i64 - 3) as i32;
                load_valid(m, r, 0, e, e + 2);
                load_valid(m, r, 1, e, e + 2);
            }
            4 => {
                // near 1 / small integers
                load_valid(m, r, 0, -2, 6);
                load_valid(m, r, 1, -2, 6);
            }
            5 => {
                load_generic(m, r, 0, emin, emax);
                load_generic(m, r, 1, emin, emax);
            }
            _ => {
                load_valid(m, r, 0, emin, emax);
                load_valid(m, r, 1, emin, emax);
            }
        }
        let fa = f64_operand(m, r, 0, emin, emax);
        let sp = |r: &mut Rng| *r.pick(&SP_TT);
        let spf = |r: &mut Rng| *r.pick(&SP_FT);
        let all = which == "all";
        if all || which == "new" {
            let (x, y) = (m.tf(0).hi(), m.tf(1).hi());
            let (x2, y2) = if r.coin() { (x, y) } else { (r.f64_in(-1022, 1022), r.f64_in(-1022, 1022)) };
            m.call("arith", "new_add", "inh", Some(2), &[A::F(x2), A::F(y2)]);
            m.call("arith", "new_sub", "inh", Some(2), &[A::F(x2), A::F(y2)]);
            // second operand in the half-ulp / quarter-ulp neighbourhood of the first (both orders)
            let xa = r.f64_in(-1000, 1000);
            let xb = lo_candidate(r, xa);
            m.call("arith", "new_add", "inh", Some(2), &[A::F(xa), A::F(xb)]);
            m.call("arith", "new_add", "inh", Some(2), &[A::F(xb), A::F(xa)]);
            m.call("arith", "new_sub", "inh", Some(2), &[A::F(xa), A::F(xb)]);
            m.call("arith", "new_sub", "inh", Some(2), &[A::F(xb), A::F(xa)]);
            // subnormal operands
            if i % 7 == 0 {
                let s1 = f64::from_bits(r.next() & ((1u64 << 52) - 1));
                let s2 = if r.coin() { -s1 } else { f64::from_bits(r.next() & ((1u64 << 53) - 1)) };
                m.call("arith", "new_add", "inh", Some(2), &[A::F(s1), A::F(s2)]);
                m.call("arith", "new_sub", "inh", Some(2), &[A::F(s1), A::F(s2)]);
            }
            let (xm, ym) = (r.f64_in(-480, 480), r.f64_in(-480, 480));
            let (xm, ym) = if r.coin() && x != 0.0 && y != 0.0 && exponent(x).abs() < 480 && exponent(y).abs() < 480 { (x, y) } else { (xm, ym) };
            m.call("arith", "new_mul", "inh", Some(2), &[A::F(xm), A::F(ym)]);
            m.call("arith", "new_div", "inh", Some(2), &[A::F(xm), A::F(ym)]);
            if i % 5 == 0 {
                // products straddling the 2^-960 limit and close to overflow
                let e1 = r.range(-500, -460) as i32;
                let a = r.f64_in(e1, e1);
                let b = r.f64_in(-962 - e1, -958 - e1);
                m.call("arith", "new_mul", "inh", Some(2), &[A::F(a), A::F(b)]);
                let c = r.f64_in(500, 511);
                let d = r.f64_in(505, 511);
                m.call("arith", "new_mul", "inh", Some(2), &[A::F(c), A::F(d)]);
            }
            if i % 3 == 0 {
                // products anywhere near the underflow threshold (exactness is only claimed above 2^-960,
                // but the result must not depend on the build configuration) and quotients likewise
                let e1 = r.range(-1022, 1000) as i32;
                let et = r.range(-1085, -940) as i32;
                let e2 = (et - e1).clamp(-1022, 1023);
                let a = r.f64_in(e1, e1);
                let b = r.f64_in(e2, e2);
                m.call("arith", "new_mul", "inh", Some(2), &[A::F(a), A::F(b)]);
                m.call("arith", "new_div", "inh", Some(2), &[A::F(a), A::F(r.f64_in((-e2).clamp(-1022, 1023), (-e2).clamp(-1022, 1023)))]);
                if m.load(3, a, 0.0) {
                    m.call("arith", "mul", *r.pick(&SP_TT), Some(4), &[A::R(3), A::F(b)]);
                    if m.load(5, b, 0.0) {
                        m.call("arith", "mul", *r.pick(&SP_TT), Some(4), &[A::R(3), A::R(5)]);
                    }
                }
            }
            {
                // integer-valued operands of every bit length (products of 2 x 27 bits need 54 bits)
                let la = r.range(1, 53) as u32;
                let lb = if r.coin() { (54i64 - la as i64 + r.range(-2, 2)).clamp(1, 53) as u32 } else { r.range(1, 53) as u32 };
                let ia = ((r.next() >> (64 - la)) | (1u64 << (la - 1)) | 1) as f64;
                let ib = ((r.next() >> (64 - lb)) | (1u64 << (lb - 1)) | 1) as f64;
                let (sa, sb) = (if r.coin() { 1.0 } else { -1.0 }, if r.coin() { 1.0 } else { -1.0 });
                m.call("arith", "new_mul", "inh", Some(2), &[A::F(sa * ia), A::F(sb * ib)]);
                m.call("arith", "new_add", "inh", Some(2), &[A::F(sa * ia), A::F(sb * ib)]);
                m.call("arith", "new_div", "inh", Some(2), &[A::F(sa * ia), A::F(sb * ib)]);
                // one operand at the very top / bottom of the exponent range, the other chosen so that the
                // result stays finite and normal
                let et = *r.pick(&[1023, 1022, 1000, 998, 997, 996, 995, 990, -1022, -1021, -1000, -997, -996]);
                let big = if r.below(3) == 0 { pow2(et) } else if r.coin() { next_down_mag(pow2(et)) } else { r.f64_in(et, et) };
                let other = r.f64_in((-et / 2 - 30).clamp(-1022, 1023), (-et / 2 + 30).clamp(-1022, 1023));
                let small = if et > 0 { r.f64_in(-60, -1) } else { r.f64_in(1, 60) };
                m.call("arith", "new_mul", "inh", Some(2), &[A::F(big), A::F(small)]);
                m.call("arith", "new_mul", "inh", Some(2), &[A::F(small), A::F(big)]);
                m.call("arith", "new_mul", "inh", Some(2), &[A::F(big), A::F(other)]);
                m.call("arith", "new_div", "inh", Some(2), &[A::F(big), A::F(if et > 0 { r.f64_in(1, 60) } else { r.f64_in(-60, -1) })]);
                if m.load(3, big, 0.0) {
                    m.call("arith", "mul", *r.pick(&SP_TT), Some(4), &[A::R(3), A::F(small)]);
                    m.call("arith", "mul", *r.pick(&SP_FT), Some(4), &[A::F(small), A::R(3)]);
                    m.call("arith", "div", *r.pick(&SP_TT), Some(4), &[A::R(3), A::F(if et > 0 { r.f64_in(1, 60) } else { r.f64_in(-60, -1) })]);
                    if m.load(5, small, 0.0) {
                        m.call("arith", "mul", *r.pick(&SP_TT), Some(4), &[A::R(3), A::R(5)]);
                        m.call("arith", "div", *r.pick(&SP_TT), Some(4), &[A::R(5), A::R(3)]);
                    }
                }
            }
            {
                // scaling into the lowest normal binades: the low word becomes subnormal and is rounded there
                let eh = r.range(-1000, -960) as i32;
                let hi = r.f64_in(eh, eh);
                let lo = lo_candidate(r, hi);
                if m.load(3, hi, lo) || m.load(3, hi, 0.0) {
                    let target = r.range(-1022, -1010) as i32;
                    let k = (eh - target).max(1);
                    let (up, down) = (pow2(k), pow2(-k));
                    let sg = if r.coin() { 1.0 } else { -1.0 };
                    for sp in SP_TT {
                        if r.below(3) == 0 {
                            continue;
                        }
                        m.call("arith", "div", sp, Some(4), &[A::R(3), A::F(sg * up)]);
                        m.call("arith", "mul", sp, Some(4), &[A::R(3), A::F(sg * down)]);
                    }
                    m.call("arith", "mul", *r.pick(&SP_FT), Some(4), &[A::F(sg * down), A::R(3)]);
                    if m.load(5, sg * up, 0.0) {
                        m.call("arith", "div", *r.pick(&SP_TT), Some(4), &[A::R(3), A::R(5)]);
                    }
                    if m.load(5, sg * down, 0.0) {
                        m.call("arith", "mul", *r.pick(&SP_TT), Some(4), &[A::R(3), A::R(5)]);
                    }
                }
            }
            let z = r.f64_in(-1022, 1023);
            m.call("arith", "from_f64", *r.pick(&["From", "from_f64", "Into", "NumCast"]), Some(2), &[A::F(z)]);
        }
        if (all || which == "mul" || which == "div") && i % 3 == 0 {
            // a "special" high word (1, a power of two, a small integer, 1/2) with a NON-ZERO low word, on either
            // side, through every spelling: shortcuts for unit / power-of-two factors must look at both words
            let hs = match r.below(4) {
                0 => 1.0,
                1 => pow2(r.range(-40, 40) as i32),
                2 => r.range(2, 10) as f64,
                _ => 0.5,
            } * if r.coin() { 1.0 } else { -1.0 };
            let ls = if r.coin() { generic_lo(r, hs) } else { lo_candidate(r, hs) };
            let ls = if ls == 0.0 { pow2(exponent(hs) - 60) } else { ls };
            if m.load(6, hs, ls) {
                load_generic(m, r, 7, -20, 20);
                for spn in SP_TT {
                    if all || which == "mul" {
                        m.call("arith", "mul", spn, Some(2), &[A::R(6), A::R(7)]);
                        m.call("arith", "mul", spn, Some(2), &[A::R(7), A::R(6)]);
                    }
                    if all || which == "div" {
                        m.call("arith", "div", spn, Some(2), &[A::R(7), A::R(6)]);
                        m.call("arith", "div", spn, Some(2), &[A::R(6), A::R(7)]);
                    }
                }
            }
        }
        if i % 4 == 2 {
            // the same value on both sides (x op x), by value, by reference to two copies, and with the SAME
            // reference twice: squares, doubling, x - x, x / x, x % x
            for spn in ["vv", "rv", "vr", "rr", "av", "ar", "aa"] {
                if all || which == "mul" {
                    m.call("arith", "mul", spn, Some(2), &[A::R(0), A::R(0)]);
                }
                if all || which == "add" {
                    m.call("arith", "add", spn, Some(2), &[A::R(0), A::R(0)]);
                    m.call("arith", "sub", spn, Some(2), &[A::R(0), A::R(0)]);
                }
                if (all || which == "div") && m.tf(0).hi() != 0.0 {
                    m.call("arith", "div", spn, Some(2), &[A::R(0), A::R(0)]);
                }
                if (all || which == "rem") && m.tf(0).hi() != 0.0 {
                    m.call("arith", "rem", spn, Some(2), &[A::R(0), A::R(0)]);
                }
            }
        }
        if all || which == "add" {
            if i % 2 == 0 {
                // ulp-level cancellation of the high words with two independent full-width low words, through
                // EVERY spelling: the residual of the low-word sum is then of the order of the result, so each of
                // the two renormalisation steps of Alg. 6 (and of its hand-copied += / -= bodies) is exercised
                let e = r.range(emin as i64, emax as i64 - 1) as i32;
                let h = r.f64_uniform_mant(e, e);
                let k = match r.below(4) { 0 | 1 => 1, 2 => r.range(2, 4) as u64, _ => 1u64 << r.below(10) };
                let hb = f64::from_bits(if r.coin() { h.to_bits() + k } else { h.to_bits() - k });
                if hb.is_finite() && exponent(hb) > -1022 && m.load(6, h, generic_lo(r, h)) && m.load(7, -hb, generic_lo(r, hb)) {
                    for spn in SP_TT {
                        m.call("arith", "add", spn, Some(2), &[A::R(6), A::R(7)]);
                    }
                    m.call("arith", "neg", "v", Some(7), &[A::R(7)]);
                    for spn in SP_TT {
                        m.call("arith", "sub", spn, Some(2), &[A::R(6), A::R(7)]);
                    }
                }
            }
            m.call("arith", "add", sp(r), Some(2), &[A::R(0), A::R(1)]);
            m.call("arith", "sub", sp(r), Some(3), &[A::R(0), A::R(1)]);
            m.call("arith", "add", sp(r), Some(4), &[A::R(0), A::F(fa)]);
            m.call("arith", "add", spf(r), Some(4), &[A::F(fa), A::R(1)]);
            m.call("arith", "sub", sp(r), Some(5), &[A::R(0), A::F(fa)]);
            m.call("arith", "sub", spf(r), Some(5), &[A::F(fa), A::R(0)]);
            if i % 5 == 0 {
                // iterator sums (f64 items and TwoFloat items), every spelling, against the explicit fold
                // long inputs sit around powers of two: a blocked / pairwise / chunked summation changes the
                // association order only beyond its block length
                let cnt = match r.below(5) {
                    0 => 0,
                    1 => 1,
                    2 => r.range(2, 12),
                    3 => r.range(12, 120),
                    _ => crate::gen::long_len(r),
                } as usize;
                let ladder = r.coin();
                let mut fl = Vec::new();
                for k in 0..cnt {
                    fl.push(if ladder { pow2(-(k as i32) - 1) } else { r.f64_in(-80, 80) });
                }
                if r.coin() && cnt >= 2 {
                    // cancellation inside the sequence: a large term, a term near half an ulp of it, the
                    // large term's negation, then much smaller terms (the running sum drops by ~50 binades)
                    let big = r.f64_in(-20, 20);
                    let tie = lo_candidate(r, big);
                    let e0 = exponent(big);
                    fl = vec![big, tie, -big, pow2(e0 - 60) * (1.0 + r.below(8) as f64 / 8.0), pow2(e0 - 113), r.f64_in(e0 - 130, e0 - 100)];
                    if r.coin() {
                        fl.insert(0, r.f64_in(e0 - 140, e0 - 120));
                    }
                    if r.below(3) == 0 {
                        // [B, u, -B, v]: u is absorbed entirely by the large term and survives only in the error terms,
                        // v arrives after the cancellation, and u + v is a round-to-even tie (v ends half an ulp below
                        // the ulp of the sum): any compensated scheme that recombines its parts in the wrong order
                        // (smaller magnitude first) rounds twice there
                        let eu = r.range(-10, 10) as i32;
                        let u = f64::from_bits((((eu + 1023) as u64) << 52) | (r.next() & ((1u64 << 52) - 1)) | 1);
                        let v = pow2(eu - 1) + pow2(eu - 52) * (r.below(1 << 20) as f64) + pow2(eu - 53);
                        let bb = pow2(eu + r.range(56, 80) as i32);
                        fl = if r.coin() { vec![bb, u, -bb, v] } else { vec![-bb, -u, bb, -v] };
                    }
                }
                for spn in ["sum_v", "sum_r", "fold"] {
                    m.call("arith", "sum", spn, Some(6), &[A::FL(fl.clone())]);
                }
                let nrl = if r.below(5) == 0 { crate::gen::long_len(r) } else { r.range(0, 9) } as usize;
                let rl: Vec<usize> = (0..nrl).map(|_| r.below(6) as usize).collect();
                for spn in ["sum_v", "sum_r", "fold"] {
                    m.call("arith", "sum", spn, Some(6), &[A::RL(rl.clone())]);
                }
            }
            if i % 4 == 0 {
                // feed results back: (a+b)-b, (a-b)+b
                m.call("arith", "sub", sp(r), Some(6), &[A::R(2), A::R(1)]);
                m.call("arith", "add", sp(r), Some(6), &[A::R(3), A::R(1)]);
            }
        }
        if which == "mul" && i % 2 == 1 {
            mul_worst_group(m, r);
            continue;
        }
        if all || which == "mul" {
            let fm = if r.below(4) == 0 { *r.pick(&[1.0, -1.0, 0.0, -0.0, 2.0, 0.5, -4.0]) } else { fa };
            m.call("arith", "mul", sp(r), Some(2), &[A::R(0), A::R(1)]);
            m.call("arith", "mul", sp(r), Some(3), &[A::R(0), A::F(fm)]);
            m.call("arith", "mul", spf(r), Some(3), &[A::F(fm), A::R(1)]);
            if i % 6 == 0 {
                let k = pow2(r.range(-40, 40) as i32);
                m.call("arith", "mul", sp(r), Some(4), &[A::R(0), A::F(k)]);
                m.call("arith", "mul", sp(r), Some(4), &[A::R(0), A::R(0)]);
            }
        }
        if all || which == "div" {
            let fd = if r.below(4) == 0 { *r.pick(&[1.0, -1.0, 2.0, 0.5, -4.0, 3.0]) } else if fa == 0.0 { 3.0 } else { fa };
            if m.tf(1).hi() != 0.0 {
                m.call("arith", "div", sp(r), Some(2), &[A::R(0), A::R(1)]);
                m.call("arith", "div", spf(r), Some(3), &[A::F(fd), A::R(1)]);
                m.call("arith", "recip", *r.pick(&["inh", "Inv_v", "Inv_r", "Float", "FloatCore"]), Some(4), &[A::R(1)]);
                m.call("arith", "div", sp(r), Some(5), &[A::R(1), A::R(1)]);
            }
            m.call("arith", "div", sp(r), Some(3), &[A::R(0), A::F(fd)]);
            if i % 6 == 0 {
                let k = pow2(r.range(-40, 40) as i32);
                m.call("arith", "div", sp(r), Some(4), &[A::R(0), A::F(k)]);
            }
        }
        if all || which == "rem" {
            rem_group(m, r);
        }
    }
}

/// Multiplication operands steered towards the worst case of the double-word x f64 / double-word
/// algorithms: high words just above a power of two, low word within a few ulps of the tie, and the
/// second factor chosen (among 48 neighbours) so that the rounding error of hi*y is as close to half
/// an ulp as possible with the sign of the low-word contribution.  Host arithmetic is used here only
/// to CHOOSE operands; the verdict is the specification's.
fn mul_worst_group(m: &mut M, r: &mut Rng) {
    let e1 = r.range(-200, 200) as i32;
    let e2 = r.range(-200, 200) as i32;
    let frac_a = r.next() & ((1u64 << r.range(20, 50)) - 1);
    let xh = f64::from_bits((((e1 + 1023) as u64) << 52) | frac_a);
    let half = pow2(e1 - 53);
    let j = r.below(4) as f64;
    let s = if r.coin() { 1.0 } else { -1.0 };
    let xl = s * (half - j * pow2(e1 - 53 - 52));
    let frac_b = r.next() & ((1u64 << r.range(20, 50)) - 1);
    let y0 = f64::from_bits((((e2 + 1023) as u64) << 52) | frac_b);
    let mut best = y0;
    let mut best_score = -1.0f64;
    let mut y = y0;
    for _ in 0..48 {
        let p = xh * y;
        let e = xh.mul_add(y, -p);
        let u = pow2(exponent(p) - 52);
        let score = (e / u) * s; // want the error term to have the sign of the low word, near +1/2
        if score > best_score {
            best_score = score;
            best = y;
        }
        y = next_up_mag(y);
    }
    let sy = if r.coin() { 1.0 } else { -1.0 };
    if !m.load(0, xh, xl) {
        m.load(0, xh, next_down_mag(xl));
    }
    let yl = lo_candidate(r, best);
    if !m.load(1, sy * best, sy * yl) {
        m.load(1, sy * best, 0.0);
    }
    m.call("arith", "mul", *r.pick(&SP_TT), Some(2), &[A::R(0), A::F(sy * best)]);
    m.call("arith", "mul", *r.pick(&SP_FT), Some(2), &[A::F(sy * best), A::R(0)]);
    m.call("arith", "mul", *r.pick(&SP_TT), Some(3), &[A::R(0), A::R(1)]);
    m.call("arith", "mul", *r.pick(&SP_TT), Some(3), &[A::R(1), A::R(0)]);
}

/// operands for % with |a/b| <= 2^90 (b replaced so that the quotient is of the wanted kind)
fn rem_group(m: &mut M, r: &mut Rng) {
    let e = r.range(-380, 300) as i32;
    load_valid(m, r, 1, e, e + 1);
    let scen = r.below(10);
    let qe = match r.below(4) {
        0 => r.range(-3, 3),
        1 => r.range(3, 52),
        2 => r.range(52, 88),
        _ => r.range(-60, 20),
    } as i32;
    match scen {
        0 | 1 => {
            // a = k * b for an integer k (exact or nearly exact integer quotient)
            let k = (r.next() >> r.range(11, 63)) as f64 * if r.coin() { 1.0 } else { -1.0 };
            m.call("arith", "mul", "vv", Some(0), &[A::R(1), A::F(k)]);
            if scen == 1 {
                let t = m.tf(0);
                // distance of the quotient from the integer: one binade at a time (round-robin) from 2^-112 to 2^-50
                // relative, i.e. on both sides of the 2^-98 proviso of the property and of any "snap" tolerance
                let d0 = if r.coin() { t.lo().abs().max(t.hi().abs() * 2f64.powi(-105)) } else { t.hi().abs() * pow2(-50 - (r.tick() % 63) as i32) };
                let d = d0 * if r.coin() { 1.0 } else { -1.0 };
                m.call("arith", "add", "vv", Some(0), &[A::R(0), A::F(d)]);
            }
        }
        2 => {
            // small integers
            let a = r.range(-200, 200) as f64;
            let b = r.range(1, 50) as f64 * if r.coin() { 1.0 } else { -1.0 };
            m.load(0, a, 0.0);
            m.load(1, b, 0.0);
        }
        8 | 9 => {
            // both operands are single f64 words (low words zero) and the quotient is within an ulp (of f64!) of an
            // integer, from either side, or far beyond 2^53: a one-word shortcut that divides in f64 rounds it
            let b = match r.below(3) {
                0 => *r.pick(&[0.1, 0.3, 0.7, 0.01, 1e-3, 0.6, 1.1, 3.3]),
                1 => r.f64_uniform_mant(-20, 20).abs(),
                _ => r.range(1, 1000) as f64,
            } * if r.coin() { 1.0 } else { -1.0 };
            let k = match r.below(3) {
                0 => r.range(1, 1000) as f64,
                1 => (r.next() >> r.range(11, 50)) as f64,
                _ => (r.next() >> 11) as f64 * pow2(r.range(1, 36) as i32),
            } * if r.coin() { 1.0 } else { -1.0 };
            let a0 = k * b;
            let a = match r.below(4) { 0 => next_up_mag(a0), 1 => next_down_mag(a0), _ => a0 };
            m.load(0, a, 0.0);
            m.load(1, b, 0.0);
        }
        3 => {
            // integers below 2^53
            let a = (r.next() >> r.range(11, 40)) as f64 * if r.coin() { 1.0 } else { -1.0 };
            let b = ((r.next() >> r.range(30, 62)) + 1) as f64 * if r.coin() { 1.0 } else { -1.0 };
            m.load(0, a, 0.0);
            m.load(1, b, 0.0);
        }
        _ => {
            load_valid(m, r, 0, (e + qe).max(-399), (e + qe + 1).min(399).max((e + qe).max(-399) + 1));
        }
    }
    if m.tf(1).hi() == 0.0 || m.tf(0).hi() == 0.0 && r.coin() {
        m.load(1, 3.0, 0.0);
    }
    let sp = *r.pick(&SP_TT);
    m.call("arith", "rem", sp, Some(2), &[A::R(0), A::R(1)]);
    m.call("arith", "div_euclid", "inh", Some(3), &[A::R(0), A::R(1)]);
    m.call("arith", "rem_euclid", "inh", Some(4), &[A::R(0), A::R(1)]);
    let (a, b) = (m.tf(0), m.tf(1));
    if b.hi() != 0.0 {
        m.call("arith", "rem", *r.pick(&SP_TT), Some(5), &[A::R(0), A::F(b.hi())]);
        m.call("arith", "rem", *r.pick(&SP_FT), Some(5), &[A::F(a.hi()), A::R(1)]);
    }
}

/// IEEE self-test: host binary64 arithmetic, used only to validate the specification's own
/// IEEE module (and the encoder) against hardware; it decides no property.
pub fn ieee_selftest(m: &mut M, r: &mut Rng, n: u64) {
    for _ in 0..n {
        let scen = r.below(8);
        let (a, b) = match scen {
            0 => (r.f64_in(-1022, 1023), r.f64_in(-1022, 1023)),
            1 => {
                let a = r.f64_in(-1000, 1000);
                (a, -next_up_mag(a))
            }
            2 => (f64::from_bits(r.next() & ((1u64 << 52) - 1)), f64::from_bits(r.next() & ((1u64 << 53) - 1))),
            3 => {
                let a = r.f64_in(-300, 300);
                let e = exponent(a);
                (a, pow2(e - 53) * if r.coin() { 1.0 } else { -1.0 })
            }
            4 => {
                let e = r.range(-1022, 1000) as i32;
                (r.f64_in(e, e), r.f64_in(e - 60, e + 3))
            }
            5 => (r.f64_in(-540, -500), r.f64_in(-540, -500)),
            6 => (r.f64_in(500, 1023), r.f64_in(500, 1023)),
            _ => (*r.pick(&[0.0, -0.0, f64::INFINITY, f64::NEG_INFINITY, f64::NAN, 1.0]), *r.pick(&[0.0, -0.0, f64::INFINITY, f64::NEG_INFINITY, f64::NAN, -1.0, 3.5])),
        };
        let c = match r.below(4) {
            0 => -(a * b),
            1 => r.f64_in(-1022, 1023),
            2 => 0.0,
            _ => {
                let p = a * b;
                if p.is_finite() && p != 0.0 && exponent(p) > -960 {
                    pow2(exponent(p) - 53)
                } else {
                    1.0
                }
            }
        };
        m.call("ieee", "h_add", "host", None, &[A::F(a), A::F(b), A::F(a + b)]);
        m.call("ieee", "h_sub", "host", None, &[A::F(a), A::F(b), A::F(a - b)]);
        m.call("ieee", "h_mul", "host", None, &[A::F(a), A::F(b), A::F(a * b)]);
        m.call("ieee", "h_div", "host", None, &[A::F(a), A::F(b), A::F(a / b)]);
        m.call("ieee", "h_sqrt", "host", None, &[A::F(a.abs()), A::F(a.abs().sqrt())]);
        m.call("ieee", "h_fma", "host", None, &[A::F(a), A::F(b), A::F(c), A::F(a.mul_add(b, c))]);
        m.call("ieee", "h_round", "host", None, &[A::F(a), A::F(a.floor()), A::F(a.ceil()), A::F(a.round()), A::F(a.trunc())]);
        m.call("ieee", "h_f32", "host", None, &[A::F(a), A::F32(a as f32)]);
    }
}

/// lengths just below, at and above the powers of two from 8 to 1024 (and a few beyond)
pub fn long_len(r: &mut Rng) -> i64 {
    let p = 1i64 << r.range(3, 10);
    match r.below(6) {
        0 => p - 1,
        1 => p,
        2 => p + 1,
        3 => p + 2,
        4 => 2 * p + r.range(1, 40),
        _ => r.range(121, 1500),
    }
}

pub fn run(m: &mut M, r: &mut Rng, family: &str, n: u64) {
    match family {
        "ieee" => ieee_selftest(m, r, n),
        "arith_all" => arith(m, r, n, "all"),
        "arith_add" => arith(m, r, n, "add"),
        "arith_mul" => arith(m, r, n, "mul"),
        "arith_div" => arith(m, r, n, "div"),
        "arith_rem" => arith(m, r, n, "rem"),
        "arith_new" => arith(m, r, n, "new"),
        _ => {
            if !crate::gen2::run(m, r, family, n) {
                panic!("unknown generator family {}", family);
            }
        }
    }
    let _ = Out::None;
}
