//! Generator families: rounding (C08), conversions (C09), comparison (C06), the validity grid
//! (C07), spellings (C10), random programs (C01), fma triples (C11).
use crate::gen::{load_generic, load_valid, SP_FT, SP_TT};
use crate::mach::{A, M};
use crate::rng::*;

const SP3: [&str; 3] = ["inh", "Float", "FloatCore"];

fn sgn(r: &mut Rng) -> f64 {
    if r.coin() {
        1.0
    } else {
        -1.0
    }
}

/// load a value whose integer / fraction structure is adversarial for floor/ceil/round/trunc/fract
fn load_frac_case(m: &mut M, r: &mut Rng, d: usize) {
    loop {
        let s = sgn(r);
        let (hi, lo): (f64, f64) = match r.below(16) {
            // fraction only in hi: small numbers
            0 => (s * (r.range(0, 1 << 20) as f64 + *r.pick(&[0.5, 0.25, 0.75, 0.0, 0.125])), lo_candidate(r, 1.0) * 1e-3),
            // integer hi, low word integer / half / fractional / tiny
            1 | 2 | 3 => {
                let k = r.range(0, 70) as i32;
                let h = s * (pow2(k) + if k > 1 { r.range(0, 3) as f64 } else { 0.0 });
                let l = match r.below(7) {
                    0 => 0.5,
                    1 => -0.5,
                    2 => sgn(r) * (r.range(1, 9) as f64 + 0.5),
                    3 => sgn(r) * r.range(1, 1000) as f64,
                    4 => sgn(r) * pow2(-(r.range(1, 300) as i32)),
                    5 => sgn(r) * (r.below(1 << 30) as f64) / 1024.0,
                    _ => 0.0,
                };
                (h, l)
            }
            // hi >= 2^53 (integer), fraction entirely in lo
            4 | 5 => {
                let k = r.range(53, 104) as i32;
                let h = s * f64::from_bits((((k + 1023) as u64) << 52) | r.frac52());
                let l = match r.below(6) {
                    0 => sgn(r) * 0.5,
                    1 => sgn(r) * (r.range(0, 1 << 20) as f64 + 0.5),
                    2 => sgn(r) * (r.below(1 << 40) as f64) / 256.0,
                    3 => sgn(r) * r.range(1, 1 << 30) as f64,
                    4 => sgn(r) * pow2(-(r.range(1, 60) as i32)),
                    _ => sgn(r) * (r.range(1, 1000) as f64 + pow2(-(r.range(1, 40) as i32))),
                };
                (h, l)
            }
            // half-integer hi with low word of either sign
            6 | 7 => {
                // (small half-integers often: their products with a subnormal low word underflow)
                let h = s * (if r.coin() { r.range(0, 4) } else { r.range(0, 1 << 30) } as f64 + 0.5);
                let l = match r.below(6) {
                    0 => pow2(-1074),
                    1 => pow2(-1073) * (1.0 + r.below(2) as f64 / 2.0),
                    2 => f64::from_bits(r.next() & ((1u64 << 52) - 1)),
                    3 => pow2(-1022),
                    _ => pow2(-(r.range(30, 400) as i32)) * (1.0 + r.below(4) as f64 / 4.0),
                };
                (h, sgn(r) * l)
            }
            // 2^k +- {0.5, 1, 1.5}
            8 => {
                let k = r.range(1, 100) as i32;
                (s * pow2(k), *r.pick(&[0.5, -0.5, 1.0, -1.0, 1.5, -1.5, 0.25, -0.25]))
            }
            // |x| < 1
            9 => (s * r.f64_in(-60, -1).abs(), 0.0),
            10 => {
                let h = s * r.f64_in(-60, -1).abs();
                (h, lo_candidate(r, h))
            }
            // huge: no fraction anywhere
            11 => {
                let h = r.f64_in(107, 200);
                (h, lo_candidate(r, h))
            }
            // zeros
            12 => (s * 0.0, sgn(r) * 0.0),
            // integer high word, low word one ulp either side of a rounding threshold (0.5, 1, k + 0.5, k)
            13 => {
                let k = r.range(52, 110) as i32;
                let h = s * f64::from_bits((((k + 1023) as u64) << 52) | r.frac52());
                let t = *r.pick(&[0.5, 1.0, 1.5, 2.0, 2.5, 0.25, 1024.5, 4096.0]);
                let l = sgn(r) * if r.coin() { next_down_mag(t) } else { next_up_mag(t) };
                (h, l)
            }
            // high word one ulp either side of a half-integer / integer, small or zero low word
            14 => {
                let t = r.range(0, 1 << 20) as f64 + *r.pick(&[0.5, 0.0, 1.0]);
                let h = s * if r.coin() { next_down_mag(t.max(0.5)) } else { next_up_mag(t) };
                (h, if r.coin() { 0.0 } else { lo_candidate(r, h) })
            }
            _ => {
                let h = r.f64_in(-10, 110);
                (h, lo_candidate(r, h))
            }
        };
        if m.load(d, hi, lo) {
            return;
        }
    }
}

pub fn frac(m: &mut M, r: &mut Rng, n: u64) {
    for i in 0..n {
        m.group("frac");
        load_frac_case(m, r, 0);
        for op in ["floor", "ceil", "trunc", "round", "fract"] {
            let sp = if i % 3 == 0 { *r.pick(&SP3) } else { "inh" };
            m.call("conv", op, sp, Some(1 + (r.below(5) as usize)), &[A::R(0)]);
        }
        if i % 5 == 0 {
            // trunc + fract recombination, and rounding functions applied to their own results
            m.call("conv", "trunc", "inh", Some(1), &[A::R(0)]);
            m.call("conv", "fract", "inh", Some(2), &[A::R(0)]);
            m.call("arith", "add", "vv", Some(3), &[A::R(1), A::R(2)]);
            m.call("conv", "floor", "inh", Some(4), &[A::R(2)]);
            m.call("conv", "round", "inh", Some(4), &[A::R(1)]);
        }
    }
}

const INT_TYPES: [(&str, u32, bool); 10] = [
    ("i8", 8, true), ("u8", 8, false), ("i16", 16, true), ("u16", 16, false), ("i32", 32, true),
    ("u32", 32, false), ("i64", 64, true), ("u64", 64, false), ("i128", 128, true), ("u128", 128, false),
];

fn int_arg(v: i128, ty: &'static str) -> A {
    A::I(v < 0, v.unsigned_abs(), ty)
}
fn uint_arg(v: u128, ty: &'static str) -> A {
    A::I(false, v, ty)
}

/// an adversarial integer of the given width
fn adversarial_int(r: &mut Rng, bits: u32, signed: bool) -> (bool, u128) {
    let maxmag: u128 = if signed { 1u128 << (bits - 1) } else if bits == 128 { u128::MAX } else { (1u128 << bits) - 1 };
    let neg = signed && r.coin();
    let mag: u128 = match r.below(10) {
        // log-uniform distance below the top of the type, through the whole band that rounds up to 2^bits
        // (and a little beyond it): the branch of the wide conversion that measures the distance from MAX
        8 if bits >= 16 && r.coin() => {
            // around the limits of every NARROWER integer type (2^7, 2^8, 2^15, ..., 2^64) and inside the band
            // [2^(w-1), 2^w) that fits the unsigned but not the signed type of width w
            let ws: Vec<u32> = [7u32, 8, 15, 16, 31, 32, 63, 64, 127].iter().cloned().filter(|w| *w < bits || (*w == bits - 1 && signed)).collect();
            let w = *r.pick(&ws);
            let b = 1u128 << w;
            match r.below(5) {
                0 => b - 1,
                1 => b,
                2 => b + 1,
                3 => b - 1 - (r.u128() & ((b >> 1) - 1).max(1)) % (b >> 1).max(1),
                _ => b + (r.next() as u128 & 0xff),
            }
        }
        9 if bits > 54 => {
            let j = r.below((bits - 52) as u64) as u32;
            let d = (1u128 << j) + (r.u128() & ((1u128 << j) - 1)) * (r.below(2) as u128);
            maxmag - d.min(maxmag)
        }
        0 => maxmag - r.below(4) as u128,
        1 => r.below(4) as u128,
        2 => {
            // 2^k, 2^k +- 1
            let k = r.below(bits as u64) as u32;
            let b = 1u128 << k.min(bits - 1);
            match r.below(3) {
                0 => b,
                1 => b.saturating_sub(1),
                _ => b + 1,
            }
        }
        3 | 4 if bits > 53 => {
            // odd/even high part, remainder rounding to a tie: hi53 * 2^k + 2^(k-1) - j  (k up to 75)
            let k = r.range(1, (bits as i64 - 53).max(1)) as u32;
            let hi53 = (r.next() >> 11) | (1u64 << 52);
            let rem = (1u128 << (k - 1)).wrapping_sub(r.below(3) as u128).wrapping_add(if r.coin() { 0 } else { r.below(2) as u128 });
            let top = ((hi53 as u128) << k) | (rem & ((1u128 << k) - 1));
            // place at the top of the type
            let lz = top.leading_zeros();
            let want_lz = 128 - bits + if signed { 1 } else { 0 } + r.below(3) as u32;
            if lz >= want_lz { top } else { top >> (want_lz - lz) }
        }
        5 if bits > 53 => {
            // all ones at various lengths
            let k = r.range(54, bits as i64) as u32;
            if k >= 128 { u128::MAX } else { (1u128 << k) - 1 }
        }
        6 if bits > 64 => {
            // > 106 significant bits
            (r.u128() | (1u128 << 127) | 1) >> r.below(8)
        }
        _ => {
            let v = r.u128();
            let sh = r.below(bits as u64) as u32;
            (v >> (128 - bits)) >> sh
        }
    };
    let mag = if signed { mag.min(if neg { maxmag } else { maxmag - 1 }) } else { mag.min(maxmag) };
    (neg && mag != 0, mag)
}

pub fn conv(m: &mut M, r: &mut Rng, n: u64) {
    for i in 0..n {
        m.group("conv");
        let (ty, bits, signed) = *r.pick(&INT_TYPES);
        // --- From<int>
        let (neg, mag) = adversarial_int(r, bits, signed);
        let sp = *r.pick(&["From", "From", "FromPrimitive", "NumCast"]);
        m.call("conv", "from_int", sp, Some(0), &[A::I(neg, mag, ty)]);
        // round trip of the produced value
        m.call("conv", "try_into", *r.pick(&["TryFrom_v", "TryFrom_r", "ToPrimitive"]), None, &[A::R(0), A::S(ty.to_string())]);
        // --- TryFrom<TwoFloat> at the boundaries of the type
        let maxp1 = if signed { 2f64.powi(bits as i32 - 1) } else { 2f64.powi(bits as i32) };
        let minv = if signed { -maxp1 } else { 0.0 };
        let base = *r.pick(&[maxp1, minv, 0.0, -1.0, 1.0, maxp1 / 2.0]);
        let delta = *r.pick(&[0.0, -1.0, 1.0, -0.5, 0.5, -2.0, 1e-30, -1e-30, -0.999, 0.999, -1.5, 2.5]);
        // base + delta as an exact double-double (the sum of two f64 is exact in a TwoFloat)
        m.call("arith", "new_add", "inh", Some(1), &[A::F(base), A::F(delta)]);
        let tsp = *r.pick(&["TryFrom_v", "TryFrom_r", "ToPrimitive"]);
        m.call("conv", "try_into", tsp, None, &[A::R(1), A::S(ty.to_string())]);
        if i % 3 == 0 {
            // one low-word ulp around the boundary
            let x = m.tf(1);
            if x.lo() != 0.0 {
                for lo2 in [next_up_mag(x.lo()), next_down_mag(x.lo())] {
                    if m.load(2, x.hi(), lo2) {
                        m.call("conv", "try_into", tsp, None, &[A::R(2), A::S(ty.to_string())]);
                    }
                }
            }
        }
        if i % 4 == 0 {
            // generic values, fractional, both signs, also for every other type
            load_valid(m, r, 3, -5, (bits as i32) + 3);
            let (ty2, _, _) = *r.pick(&INT_TYPES);
            m.call("conv", "try_into", tsp, None, &[A::R(3), A::S(ty2.to_string())]);
            m.call("conv", "try_into", "ToPrimitive", None, &[A::R(3), A::S((*r.pick(&["isize", "usize"])).to_string())]);
        }
        if i % 16 == 0 {
            // non-finite and NaN-bearing values reachable through the API
            let (a, b) = *r.pick(&[(f64::INFINITY, 1.0), (f64::NAN, 1.0), (f64::MAX, f64::MAX), (f64::NEG_INFINITY, 0.0)]);
            m.call("arith", "new_add", "inh", Some(4), &[A::F(a), A::F(b)]);
            m.call("conv", "try_into", tsp, None, &[A::R(4), A::S(ty.to_string())]);
        }
        // --- float conversions
        if i % 3 == 1 {
            if i % 2 == 0 {
                load_valid(m, r, 5, -160, 140);
            } else {
                // the thresholds of the TARGET format: largest finite f32 and the overflow tie above it, the
                // smallest normal and the subnormal range of f32 (rounding ties of a narrower significand), a
                // few f64 ulps either side, through every spelling
                let t = match r.below(7) {
                    0 => f32::MAX as f64,
                    1 => f32::MAX as f64 + pow2(103),            // tie between f32::MAX and 2^128
                    2 => f32::MAX as f64 + pow2(r.range(75, 103) as i32),
                    3 => f32::MIN_POSITIVE as f64,
                    4 => pow2(-149) * (r.range(1, 64) as f64 + 0.5), // ties between f32 subnormals
                    5 => pow2(-150),
                    _ => pow2(r.range(-126, 127) as i32) * (1.0 + pow2(-24) * (2.0 * r.range(0, 100) as f64 + 1.0)), // f32 half-ulp ties
                };
                let k = r.range(-3, 3);
                let h = f64::from_bits((t.to_bits() as i64 + k) as u64) * if r.coin() { 1.0 } else { -1.0 };
                loop {
                    if m.load(5, h, lo_candidate(r, h)) {
                        break;
                    }
                }
            }
            m.call("conv", "to_f64", *r.pick(&["From_v", "From_r", "ToPrimitive", "hi"]), None, &[A::R(5)]);
            for spf in ["From_v", "From_r", "ToPrimitive"] {
                m.call("conv", "to_f32", spf, None, &[A::R(5)]);
            }
            let f = f32::from_bits(r.next() as u32);
            m.call("conv", "from_f32", "From", Some(6), &[A::F32(f)]);
        }
    }
}

/// exhaustive From<int> + round trip for the 8- and 16-bit types (slice k of 16 for 16-bit)
pub fn conv_small(m: &mut M, _r: &mut Rng, slice: u64) {
    m.group("conv_small");
    for v in -128i128..=127 {
        m.group_every(60, "conv_small");
        m.call("conv", "from_int", "From", Some(0), &[int_arg(v, "i8")]);
        m.call("conv", "try_into", "TryFrom_v", None, &[A::R(0), A::S("i8".into())]);
    }
    for v in 0u128..=255 {
        m.group_every(60, "conv_small");
        m.call("conv", "from_int", "From", Some(0), &[uint_arg(v, "u8")]);
        m.call("conv", "try_into", "TryFrom_r", None, &[A::R(0), A::S("u8".into())]);
    }
    m.group("conv_small16");
    let s = (slice % 16) as i128;
    for k in 0..4096i128 {
        m.group_every(60, "conv_small16");
        let v = -32768 + k * 16 + s;
        m.call("conv", "from_int", "From", Some(0), &[int_arg(v, "i16")]);
        m.call("conv", "try_into", "TryFrom_v", None, &[A::R(0), A::S("i16".into())]);
        let u = (k * 16 + s) as u128;
        m.call("conv", "from_int", "From", Some(1), &[uint_arg(u, "u16")]);
        m.call("conv", "try_into", "ToPrimitive", None, &[A::R(1), A::S("u16".into())]);
    }
}

// ------------------------------------------------------------------------------------ C06
fn cmp_all(m: &mut M, a: A, b: A) {
    for op in ["eq", "ne", "lt", "le", "gt", "ge", "pcmp"] {
        m.call("base", op, "op", None, &[a.clone(), b.clone()]);
        m.call("base", op, "op", None, &[b.clone(), a.clone()]);
    }
}

pub fn cmp(m: &mut M, r: &mut Rng, n: u64) {
    for i in 0..n {
        m.group("cmp");
        let e = r.range(-300, 300) as i32;
        load_valid(m, r, 0, e, e + 1);
        // b: related to a
        let x = m.tf(0);
        loop {
            let (hi, lo) = match r.below(10) {
                0 => (x.hi(), x.lo()),
                1 => (x.hi(), if x.lo() == 0.0 { pow2(-1074) * sgn(r) } else { next_up_mag(x.lo()) }),
                2 => (x.hi(), next_down_mag(x.lo())),
                3 => (x.hi(), -x.lo()),
                4 => (x.hi(), lo_candidate(r, x.hi())),
                5 => (if x.hi() == 0.0 { -x.hi() } else { next_up_mag(x.hi()) }, lo_candidate(r, x.hi())),
                8 | 9 if x.hi() != 0.0 && x.hi().is_finite() => {
                    // nearest neighbours ACROSS a high-word boundary: a keeps its high word with the largest low word
                    // pointing towards b, b has the adjacent high word with the largest low word pointing back;
                    // the two values then differ by about one ulp of the low word (or coincide in value: never)
                    let h = x.hi();
                    let up = next_up_mag(h);
                    let half = pow2(exponent(h) - 53);
                    let s1 = if h > 0.0 { 1.0 } else { -1.0 };
                    let la = s1 * match r.below(3) { 0 => half, 1 => next_down_mag(half), _ => next_down_mag(next_down_mag(half)) };
                    let halfu = pow2(exponent(up) - 53);
                    let quarter = halfu / 2.0;
                    let lb = -s1 * match r.below(5) { 0 => halfu, 1 => next_down_mag(halfu), 2 => quarter, 3 => next_down_mag(quarter), _ => next_up_mag(quarter) };
                    // a is reloaded with the extreme low word when that pair is valid (otherwise it keeps its own)
                    let _ = m.load(0, h, la);
                    (up, lb)
                }
                6 => (-x.hi(), -x.lo()),
                _ => {
                    let h = r.f64_in(e - 1, e + 1);
                    (h, lo_candidate(r, h))
                }
            };
            if m.load(1, hi, lo) {
                break;
            }
        }
        cmp_all(m, A::R(0), A::R(1));
        m.call("base", "min", *r.pick(&SP3), Some(2), &[A::R(0), A::R(1)]);
        m.call("base", "max", *r.pick(&SP3), Some(2), &[A::R(0), A::R(1)]);
        m.call("base", "min", "inh", Some(2), &[A::R(1), A::R(0)]);
        m.call("base", "max", "inh", Some(2), &[A::R(1), A::R(0)]);
        // f64 comparands: hi, hi +- ulp, zeros, infinities, NaN
        let c = match r.below(10) {
            0 => x.hi(),
            1 => next_up_mag(x.hi()),
            2 => next_down_mag(x.hi()),
            3 => 0.0,
            4 => -0.0,
            5 => f64::INFINITY,
            6 => f64::NEG_INFINITY,
            7 => f64::NAN,
            8 => -x.hi(),
            _ => r.f64_in(e - 1, e + 1),
        };
        cmp_all(m, A::R(0), A::F(c));
        // sign queries
        let s4 = ["inh", "Signed", "Float", "FloatCore"];
        m.call("base", "abs", *r.pick(&s4), Some(3), &[A::R(0)]);
        m.call("base", "signum", *r.pick(&s4), Some(3), &[A::R(0)]);
        m.call("base", "is_sign_negative", *r.pick(&s4), None, &[A::R(0)]);
        m.call("base", "is_sign_positive", *r.pick(&s4), None, &[A::R(0)]);
        m.call("base", "copysign", "inh", Some(3), &[A::R(0), A::R(1)]);
        if i % 8 == 0 {
            // non-finite / NaN-bearing values reachable through the API against valid and each other
            let specials: [(&str, f64, f64); 6] = [
                ("new_add", f64::INFINITY, 1.0),       // (inf, NaN)
                ("new_add", f64::NEG_INFINITY, 1.0),   // (-inf, NaN)
                ("new_mul", 1e300, 1e300),             // (inf, -inf) or (inf, NaN)
                ("new_add", f64::NAN, 1.0),            // (NaN, NaN)
                ("new_div", 1.0, 0.0),                 // inf
                ("new_sub", f64::MAX, -f64::MAX),      // overflow
            ];
            let (op1, a1, b1) = *r.pick(&specials);
            m.call("arith", op1, "inh", Some(4), &[A::F(a1), A::F(b1)]);
            let (op2, a2, b2) = *r.pick(&specials);
            m.call("arith", op2, "inh", Some(5), &[A::F(a2), A::F(b2)]);
            m.call("const", "const", "assoc", Some(6), &[A::S((*r.pick(&["INFINITY", "NEG_INFINITY", "NAN"])).to_string())]);
            cmp_all(m, A::R(4), A::R(0));
            cmp_all(m, A::R(4), A::R(5));
            cmp_all(m, A::R(4), A::R(6));
            cmp_all(m, A::R(6), A::R(0));
            for spm in SP3 {
                m.call("base", "min", spm, Some(7), &[A::R(4), A::R(0)]);
                m.call("base", "max", spm, Some(7), &[A::R(0), A::R(4)]);
                m.call("base", "max", spm, Some(7), &[A::R(4), A::R(0)]);
                m.call("base", "min", spm, Some(7), &[A::R(0), A::R(4)]);
                m.call("base", "max", spm, Some(7), &[A::R(6), A::R(0)]);
                m.call("base", "min", spm, Some(7), &[A::R(0), A::R(6)]);
            }
            m.call("base", "is_valid", "inh", None, &[A::R(4)]);
        }
    }
}

// ------------------------------------------------------------------------------------ C07
/// the structural grid: exponent field of a (slice-selected), mantissa classes, b around the thresholds
pub fn grid07(m: &mut M, r: &mut Rng, slice: u64, stride: u64) {
    m.group("grid07");
    let mants: [u64; 7] = [0, 1, 2, (1 << 52) - 1, (1 << 52) - 2, 0, 0];
    // the strided exponent fields of this slice, plus (in slice 0) the special ones whatever the stride
    let mut efs: Vec<u64> = Vec::new();
    let mut e0: u64 = slice % stride;
    while e0 <= 2047 {
        efs.push(e0);
        e0 += stride;
    }
    if slice % stride == 0 {
        for sp in [0u64, 1, 2, 3, 52, 53, 54, 55, 1022, 1023, 1024, 2044, 2045, 2046, 2047] {
            if !efs.contains(&sp) {
                efs.push(sp);
            }
        }
    }
    for ef in efs {
        for (mi, mant0) in mants.iter().enumerate() {
            let mant = match mi {
                5 => (r.next() & ((1u64 << 52) - 1)) | 1,
                6 => r.next() & ((1u64 << 52) - 1) & !1,
                _ => *mant0,
            };
            for sa in [0u64, 1] {
                m.group_every(40, "grid07");
                let a = f64::from_bits((sa << 63) | (ef << 52) | mant);
                let e = ef as i32 - 1023;
                let half = pow2(e - 53);
                let quarter = pow2(e - 54);
                let mut bs: Vec<f64> = vec![
                    half, next_up_mag(half), next_down_mag(half), quarter, next_up_mag(quarter), next_down_mag(quarter),
                    0.0, pow2(-1074), f64::INFINITY, f64::NAN,
                ];
                if ef > 0 && ef < 2047 {
                    bs.push(f64::from_bits((((ef as i64 - 54 - r.range(1, 20)).max(0)) as u64) << 52 | (r.next() & ((1u64 << 52) - 1))));
                    bs.push(f64::from_bits((((ef as i64 - 53 + r.range(1, 20)).clamp(0, 2046)) as u64) << 52 | (r.next() & ((1u64 << 52) - 1))));
                    bs.push(pow2(e - 52));
                }
                for b in bs {
                    for sb in [1.0, -1.0] {
                        let bb = if b.is_nan() { b } else { sb * b };
                        if b.is_nan() && sb < 0.0 {
                            continue;
                        }
                        m.call("base", "no_overlap", "fn", None, &[A::F(a), A::F(bb)]);
                        // (every pair goes through the checked constructor: a modular sub-sampling here once left the
                        // pair (-0.0, +0.0) without a single try_from call)
                        {
                            let sp = if (mi + sa as usize + (sb > 0.0) as usize) % 2 == 0 { "tuple" } else { "array" };
                            let ok = matches!(m.call("load", "try_from", sp, Some(0), &[A::F(a), A::F(bb)]), crate::exec::Out::TF(_));
                            if ok {
                                m.call("base", "into_pair", *r.pick(&["tuple_v", "tuple_r", "array_v", "array_r", "hi_lo"]), None, &[A::R(0)]);
                                m.call("base", "is_valid", "inh", None, &[A::R(0)]);
                            }
                        }
                    }
                }
            }
        }
    }
}

pub fn rand07(m: &mut M, r: &mut Rng, n: u64) {
    m.group("rand07");
    for i in 0..n {
        m.group_every(60, "rand07");
        let a = match r.below(4) {
            0 => f64::from_bits(r.next()),
            _ => r.f64_in(-1022, 1023),
        };
        let b = match r.below(5) {
            0 => f64::from_bits(r.next()),
            1 => r.f64_in(-1074 + 52, 1023),
            _ => lo_candidate(r, a),
        };
        m.call("base", "no_overlap", "fn", None, &[A::F(a), A::F(b)]);
        let ok = matches!(m.call("load", "try_from", if i % 2 == 0 { "tuple" } else { "array" }, Some(1), &[A::F(a), A::F(b)]), crate::exec::Out::TF(_));
        if ok {
            m.call("base", "is_valid", "inh", None, &[A::R(1)]);
            m.call("base", "into_pair", *r.pick(&["tuple_v", "tuple_r", "array_v", "array_r"]), None, &[A::R(1)]);
        }
        if i % 50 == 0 {
            // is_valid on values that are not valid: overflowed constructors
            m.call("arith", "new_mul", "inh", Some(2), &[A::F(r.f64_in(600, 1000)), A::F(r.f64_in(600, 1000))]);
            m.call("base", "is_valid", "inh", None, &[A::R(2)]);
            m.call("arith", "new_add", "inh", Some(2), &[A::F(f64::INFINITY), A::F(1.0)]);
            m.call("base", "is_valid", "inh", None, &[A::R(2)]);
        }
    }
}

// ------------------------------------------------------------------------------------ C10
pub fn spell(m: &mut M, r: &mut Rng, n: u64) {
    for i in 0..n {
        m.group("spell");
        let scen = r.below(10);
        let (emin, emax) = if scen == 0 { (-1000, 1000) } else { (-300, 300) };
        if scen >= 8 {
            // extreme operands: subnormal / least-normal high words (low word necessarily zero), or the top binades
            let h = match r.below(4) {
                0 => f64::from_bits(r.below(64) + 1),
                1 => f64::from_bits(r.next() & ((1u64 << 52) - 1)),
                2 => r.f64_in(-1022, -1015).abs(),
                _ => r.f64_in(1015, 1023).abs(),
            } * if r.coin() { 1.0 } else { -1.0 };
            let l = if h.abs() >= f64::MIN_POSITIVE { lo_candidate(r, h) } else { 0.0 };
            if !m.load(0, h, l) {
                m.load(0, h, 0.0);
            }
        } else {
            load_valid(m, r, 0, emin, emax);
        }
        match scen {
            1 => {
                let x = m.tf(0);
                m.load(1, x.hi(), x.lo());
            }
            2 => {
                let x = m.tf(0);
                m.load(1, -x.hi(), -x.lo());
            }
            3 => {
                load_valid(m, r, 1, -2, 3);
            }
            4 | 5 => {
                // the same (4) or the negated (5) HIGH word with another low word: the magnitudes of the high words
                // tie, the low words do not - whatever is decided by comparing high words is decided by the order
                let x = m.tf(0);
                let h = if scen == 4 { x.hi() } else { -x.hi() };
                let mut done = false;
                for _ in 0..6 {
                    let l = match r.below(3) { 0 => lo_candidate(r, h), 1 => x.lo() * pow2(-(r.range(1, 30) as i32)), _ => -x.lo() * 0.75 };
                    if l.to_bits() != x.lo().to_bits() && h != 0.0 && m.load(1, h, l) {
                        done = true;
                        break;
                    }
                }
                if !done {
                    load_valid(m, r, 1, emin, emax);
                }
            }
            _ => load_valid(m, r, 1, emin, emax),
        }
        if i % 10 == 0 {
            // non-finite operands reachable through the API
            let (op1, a1, b1) = *r.pick(&[("new_add", f64::INFINITY, 1.0), ("new_mul", 1e300, 1e300), ("new_sub", f64::MAX, -f64::MAX), ("new_div", 1.0, 0.0)]);
            m.call("arith", op1, "inh", Some(1), &[A::F(a1), A::F(b1)]);
        }
        let fz = *r.pick(&[0.0, -0.0, 1.0, -1.0, 3.0, 1.5, 0.75, 2.5, f64::INFINITY, f64::NEG_INFINITY]);
        let f = if r.below(4) == 0 { fz } else if scen >= 8 { r.f64_in(-3, 3) } else { r.f64_in(emin.max(-300), emax.min(300)) };
        m.call("arith", "neg", "v", Some(2), &[A::R(0)]);
        m.call("arith", "neg", "r", Some(2), &[A::R(0)]);
        m.call("arith", "neg", "v", Some(3), &[A::R(1)]);
        m.call("arith", "neg", "r", Some(4), &[A::R(2)]); // -(-a)
        for op in ["add", "sub", "mul", "div", "rem"] {
            for sp in SP_TT {
                m.call("arith", op, sp, Some(5), &[A::R(0), A::R(1)]);
                m.call("arith", op, sp, Some(5), &[A::R(0), A::F(f)]);
            }
            for sp in SP_FT {
                m.call("arith", op, sp, Some(5), &[A::F(f), A::R(0)]);
            }
        }
        // identities: b+a, a+(-b), b-a, (-a)*b
        m.call("arith", "add", "vv", Some(5), &[A::R(1), A::R(0)]);
        m.call("arith", "add", "vv", Some(5), &[A::R(0), A::R(3)]);
        m.call("arith", "sub", "vv", Some(5), &[A::R(1), A::R(0)]);
        m.call("arith", "mul", "vv", Some(5), &[A::R(2), A::R(1)]);
        // trait wrappers
        m.call("arith", "div", "vv", Some(5), &[A::F(1.0), A::R(0)]);
        for sp in ["inh", "Inv_v", "Inv_r", "Float", "FloatCore", "one_div"] {
            m.call("arith", "recip", sp, Some(5), &[A::R(0)]);
        }
        for op in ["abs", "signum"] {
            for sp in ["inh", "Signed", "Float", "FloatCore"] {
                m.call("base", op, sp, Some(5), &[A::R(0)]);
            }
        }
        for op in ["is_sign_positive", "is_sign_negative"] {
            for sp in ["inh", "Signed", "Float", "FloatCore"] {
                m.call("base", op, sp, None, &[A::R(0)]);
            }
        }
        for op in ["min", "max"] {
            for sp in SP3 {
                m.call("base", op, sp, Some(5), &[A::R(0), A::R(1)]);
            }
        }
        for op in ["floor", "ceil", "round", "trunc", "fract"] {
            for sp in SP3 {
                m.call("conv", op, sp, Some(5), &[A::R(0)]);
            }
        }
        for op in ["to_degrees", "to_radians"] {
            for sp in SP3 {
                m.call("misc", op, sp, Some(5), &[A::R(0)]);
            }
        }
        // mul_add(a, b) == self*a + b ; abs_sub
        m.call("arith", "mul", "vv", Some(6), &[A::R(0), A::R(1)]);
        m.call("arith", "add", "vv", Some(7), &[A::R(6), A::R(2)]);
        m.call("arith", "mul_add", "Float", Some(7), &[A::R(0), A::R(1), A::R(2)]);
        m.call("arith", "sub", "vv", Some(6), &[A::R(0), A::R(1)]);
        m.call("base", "abs", "inh", Some(7), &[A::R(6)]);
        m.call("arith", "abs_sub", "Signed", Some(7), &[A::R(0), A::R(1)]);
        m.call("arith", "abs_sub", "Float", Some(7), &[A::R(0), A::R(1)]);
        // powi through every Pow spelling
        let k = r.range(-20, 20);
        for sp in ["inh", "Float", "FloatCore", "Pow_i32_vv", "Pow_i32_rv", "Pow_i32_vr", "Pow_i32_rr", "Pow_i8", "Pow_i16"] {
            m.call("pow", "powi", sp, Some(5), &[A::R(0), A::I(k < 0, k.unsigned_abs() as u128, "i32")]);
        }
        let ku = r.range(0, 30);
        for sp in ["inh", "Pow_u8", "Pow_u16"] {
            m.call("pow", "powi", sp, Some(5), &[A::R(0), A::I(false, ku as u128, "i32")]);
        }
        // the shortcut exponents 0, 1, -1, 2 on operands whose words a generic multiplication does not reproduce
        // (infinities, negative zeros in either word), through every spelling: `x.pow(1)` must hand x back untouched
        if i % 3 == 0 {
            match r.below(5) {
                0 => {
                    m.call("const", "const", "assoc", Some(6), &[A::S((*r.pick(&["INFINITY", "NEG_INFINITY"])).to_string())]);
                }
                1 => {
                    m.load(6, -0.0, if r.coin() { 0.0 } else { -0.0 });
                }
                2 => {
                    // a negative-zero low word: the negation of a one-word value
                    let h = r.f64_in(-20, 20);
                    m.load(6, h, 0.0);
                    m.call("arith", "neg", "v", Some(6), &[A::R(6)]);
                }
                3 => {
                    m.load(6, 0.0, -0.0);
                }
                _ => {
                    let h = r.f64_in(-20, 20);
                    m.load(6, h, if r.coin() { 0.0 } else { -0.0 });
                }
            }
            for kk in [0i64, 1, 2, -1] {
                for sp in ["inh", "Float", "FloatCore", "Pow_i32_vv", "Pow_i32_rv", "Pow_i32_vr", "Pow_i32_rr", "Pow_i8", "Pow_i16"] {
                    m.call("pow", "powi", sp, Some(5), &[A::R(6), A::I(kk < 0, kk.unsigned_abs() as u128, "i32")]);
                }
                if kk >= 0 {
                    for sp in ["Pow_u8", "Pow_u16"] {
                        m.call("pow", "powi", sp, Some(5), &[A::R(6), A::I(false, kk as u128, "i32")]);
                    }
                }
            }
        }
        // sums
        if i % 4 == 0 {
            let cnt = if i % 16 == 0 { crate::gen::long_len(r) } else { r.range(0, 12) } as usize;
            let mut fl = Vec::new();
            for _ in 0..cnt {
                fl.push(r.f64_in(-60, 60));
            }
            for sp in ["sum_v", "sum_r", "fold"] {
                m.call("arith", "sum", sp, Some(5), &[A::FL(fl.clone())]);
            }
            let nrl = if i % 16 == 8 { crate::gen::long_len(r) } else { r.range(0, 5) } as usize;
            let rl: Vec<usize> = (0..nrl).map(|_| r.below(5) as usize).collect();
            for sp in ["sum_v", "sum_r", "fold"] {
                m.call("arith", "sum", sp, Some(5), &[A::RL(rl.clone())]);
            }
        }
        // constants through every accessor
        if i % 25 == 0 {
            consts(m);
        }
    }
}

pub const CONST_NAMES: [&str; 19] = [
    "E", "FRAC_1_PI", "FRAC_2_PI", "FRAC_2_SQRT_PI", "FRAC_1_SQRT_2", "FRAC_PI_2", "FRAC_PI_3", "FRAC_PI_4", "FRAC_PI_6",
    "FRAC_PI_8", "LN_2", "LN_10", "LOG2_E", "LOG10_E", "LOG10_2", "LOG2_10", "PI", "SQRT_2", "TAU",
];

pub fn consts(m: &mut M) {
    for c in CONST_NAMES {
        m.call("const", "const", "consts", Some(7), &[A::S(c.to_string())]);
        m.call("const", "const", "FloatConst", Some(7), &[A::S(c.to_string())]);
    }
    for (c, sps) in [
        ("MAX", vec!["assoc", "Bounded", "Float", "FloatCore"]),
        ("MIN", vec!["assoc", "Bounded", "Float", "FloatCore"]),
        ("MIN_POSITIVE", vec!["assoc", "Float", "FloatCore"]),
        ("EPSILON", vec!["assoc", "Float", "FloatCore"]),
        ("NAN", vec!["assoc", "Float", "FloatCore"]),
        ("INFINITY", vec!["assoc", "Float", "FloatCore"]),
        ("NEG_INFINITY", vec!["assoc", "Float", "FloatCore"]),
        ("ZERO", vec!["Zero", "default", "from"]),
        ("ONE", vec!["One", "from"]),
        ("NEG_ZERO", vec!["Float", "FloatCore", "from"]),
    ] {
        for sp in sps {
            m.call("const", "const", sp, Some(7), &[A::S(c.to_string())]);
        }
    }
}

// ------------------------------------------------------------------------------------ C01
/// random programs over 8 registers mixing all structural families, results fed back
pub fn prog(m: &mut M, r: &mut Rng, n: u64) {
    for _ in 0..n {
        m.group("prog");
        for d in 0..4 {
            load_valid(m, r, d, -30, 30);
        }
        for d in 4..8 {
            load_generic(m, r, d, -8, 8);
        }
        let len = r.range(50, 200);
        for _ in 0..len {
            let a = r.below(8) as usize;
            let b = r.below(8) as usize;
            let d = r.below(8) as usize;
            // keep magnitudes inside the stated domain: rescale when a register drifts
            let h = m.tf(a).hi();
            if h != 0.0 && h.is_finite() && (exponent(h) > 400 || exponent(h) < -400) {
                let k = pow2(-exponent(h));
                m.call("arith", "mul", "vv", Some(a), &[A::R(a), A::F(k)]);
            }
            if !m.tf(a).hi().is_finite() || !m.tf(b).hi().is_finite() {
                load_valid(m, r, a, -30, 30);
                load_valid(m, r, b, -30, 30);
            }
            match r.below(24) {
                0..=3 => {
                    m.call("arith", "add", *r.pick(&SP_TT), Some(d), &[A::R(a), A::R(b)]);
                }
                4..=6 => {
                    m.call("arith", "sub", *r.pick(&SP_TT), Some(d), &[A::R(a), A::R(b)]);
                }
                7..=9 => {
                    m.call("arith", "mul", *r.pick(&SP_TT), Some(d), &[A::R(a), A::R(b)]);
                }
                10 | 11 => {
                    if m.tf(b).hi() != 0.0 {
                        m.call("arith", "div", *r.pick(&SP_TT), Some(d), &[A::R(a), A::R(b)]);
                    }
                }
                12 => {
                    let f = r.f64_in(-20, 20);
                    m.call("arith", *r.pick(&["add", "sub", "mul", "div"]), *r.pick(&SP_TT), Some(d), &[A::R(a), A::F(f)]);
                }
                13 => {
                    let f = r.f64_in(-20, 20);
                    m.call("arith", *r.pick(&["add", "sub", "mul"]), *r.pick(&SP_FT), Some(d), &[A::F(f), A::R(a)]);
                }
                14 => {
                    m.call("conv", *r.pick(&["floor", "ceil", "round", "trunc", "fract"]), "inh", Some(d), &[A::R(a)]);
                }
                15 => {
                    m.call("base", *r.pick(&["abs", "signum"]), "inh", Some(d), &[A::R(a)]);
                }
                16 => {
                    m.call("base", *r.pick(&["min", "max", "copysign"]), "inh", Some(d), &[A::R(a), A::R(b)]);
                }
                17 => {
                    m.call("arith", "neg", "v", Some(d), &[A::R(a)]);
                }
                18 => {
                    if m.tf(a).hi() != 0.0 {
                        m.call("arith", "recip", "inh", Some(d), &[A::R(a)]);
                    }
                }
                19 => {
                    if m.tf(b).hi() != 0.0 && m.tf(a).hi() != 0.0 {
                        let op = *r.pick(&["rem", "div_euclid", "rem_euclid"]);
                        m.call("arith", op, if op == "rem" { "vv" } else { "inh" }, Some(d), &[A::R(a), A::R(b)]);
                    }
                }
                20 => {
                    let k = r.range(-6, 6);
                    m.call("pow", "powi", "inh", Some(d), &[A::R(a), A::I(k < 0, k.unsigned_abs() as u128, "i32")]);
                }
                21 => {
                    m.call("misc", *r.pick(&["to_degrees", "to_radians"]), "inh", Some(d), &[A::R(a)]);
                }
                22 => {
                    let x = m.tf(a);
                    m.call("arith", *r.pick(&["new_add", "new_sub", "new_mul"]), "inh", Some(d), &[A::F(x.hi()), A::F(m.tf(b).lo())]);
                }
                _ => {
                    // integer conversion of the truncated value and back
                    m.call("conv", "trunc", "inh", Some(d), &[A::R(a)]);
                    let o = m.call("conv", "try_into", "TryFrom_v", None, &[A::R(d), A::S("i128".into())]);
                    if let crate::exec::Out::I(neg, mag) = o {
                        m.call("conv", "from_int", "From", Some(d), &[A::I(neg, mag, "i128")]);
                    }
                }
            }
            m.call("base", "is_valid", "inh", None, &[A::R(d)]);
        }
    }
}

// ------------------------------------------------------------------------------------ C11
pub fn fma(m: &mut M, r: &mut Rng, n: u64) {
    m.group("fma");
    for _ in 0..n {
        m.group_every(60, "fma");
        let a = r.f64_in(-500, 500);
        let b = r.f64_in(-500, 500);
        let p = a * b;
        let c = match r.below(10) {
            0 => -p,
            1 => -next_up_mag(p),
            2 => {
                // tie created by z: half an ulp of the product
                if p.is_finite() && p != 0.0 && exponent(p) > -960 { pow2(exponent(p) - 53) * sgn(r) } else { 1.0 }
            }
            3 => 0.0,
            4 => -0.0,
            5 => r.f64_in(-1074 + 53, -1000),
            6 => {
                if p.is_finite() && p != 0.0 { p * pow2(-(r.range(40, 70) as i32)) * sgn(r) } else { 1.0 }
            }
            7 => {
                if p.is_finite() && p != 0.0 { p * pow2(r.range(40, 70) as i32) * sgn(r) } else { 1.0 }
            }
            _ => r.f64_in(-600, 600),
        };
        m.call("misc", "fma", "hook", None, &[A::F(a), A::F(b), A::F(c)]);
        if r.below(8) == 0 {
            // subnormal results
            let a2 = r.f64_in(-540, -520);
            let b2 = r.f64_in(-540, -520);
            m.call("misc", "fma", "hook", None, &[A::F(a2), A::F(b2), A::F(pow2(-1074) * (r.below(8) as f64) * sgn(r))]);
            // exactly representable products
            let a3 = (r.below(1 << 26) as f64) * sgn(r);
            let b3 = r.below(1 << 26) as f64;
            m.call("misc", "fma", "hook", None, &[A::F(a3), A::F(b3), A::F(pow2(-(r.range(1, 60) as i32)) * sgn(r))]);
        }
    }
}

pub fn run(m: &mut M, r: &mut Rng, family: &str, n: u64) -> bool {
    match family {
        "frac" => frac(m, r, n),
        "conv" => conv(m, r, n),
        "conv_small" => conv_small(m, r, m.slice),
        "cmp" => cmp(m, r, n),
        "grid07" => grid07(m, r, m.slice, n),
        "rand07" => rand07(m, r, n),
        "spell" => spell(m, r, n),
        "prog" => prog(m, r, n),
        "fma" => fma(m, r, n),
        "consts" => {
            m.group("consts");
            consts(m)
        }
        _ => return crate::gen3::run(m, r, family, n),
    }
    true
}
