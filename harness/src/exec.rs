//! One entry per (operation, spelling): calls exactly one public entry point of the real crate.
//! No arithmetic of its own: operands in, result out.

use core::convert::TryFrom;
use num_traits::{Bounded, FloatConst, FromPrimitive, Inv, One, Pow, Signed, ToPrimitive, Zero};
use twofloat::TwoFloat;

#[derive(Clone, Debug)]
pub enum V {
    TF(TwoFloat),
    F(f64),
    F32(f32),
    I(bool, u128, &'static str),
    S(String),
    FL(Vec<f64>),
    TL(Vec<TwoFloat>),
    SL(Vec<String>),
}

#[derive(Clone, Debug)]
pub enum Out {
    TF(TwoFloat),
    TF2(TwoFloat, TwoFloat),
    F(f64),
    F32(f32),
    FF(f64, f64),
    B(bool),
    Ord(Option<core::cmp::Ordering>),
    I(bool, u128),
    Err,
    None,
    Str(String),
    Raw(String),
    Panic(String),
}

fn tf(v: &V) -> TwoFloat {
    match v {
        V::TF(x) => *x,
        _ => panic!("harness: expected TwoFloat operand"),
    }
}
fn f(v: &V) -> f64 {
    match v {
        V::F(x) => *x,
        _ => panic!("harness: expected f64 operand"),
    }
}
fn s(v: &V) -> &str {
    match v {
        V::S(x) => x,
        _ => panic!("harness: expected string operand"),
    }
}
fn int(v: &V) -> (bool, u128, &'static str) {
    match v {
        V::I(n, m, t) => (*n, *m, t),
        _ => panic!("harness: expected integer operand"),
    }
}
fn as_i128(v: &V) -> i128 {
    let (n, m, _) = int(v);
    if n {
        (m as i128).wrapping_neg()
    } else {
        m as i128
    }
}

macro_rules! bin_tt {
    ($a:expr, $b:expr, $sp:expr, $op:tt, $opa:tt) => {{
        let a: TwoFloat = $a;
        let b: TwoFloat = $b;
        match $sp {
            "vv" => a $op b,
            "rv" => &a $op b,
            "vr" => a $op &b,
            "rr" => &a $op &b,
            "av" => { let mut t = a; t $opa b; t }
            "ar" => { let mut t = a; t $opa &b; t }
            // the SAME object on both sides (the caller passes the same register twice): `&x * &x`, and `x *= &x`
            // through a copy of the same value
            "aa" => { assert!(a.hi().to_bits() == b.hi().to_bits() && a.lo().to_bits() == b.lo().to_bits(), "harness: aa needs the same operand twice"); &a $op &a }
            _ => panic!("harness: bad spelling"),
        }
    }};
}
macro_rules! bin_tf {
    ($a:expr, $b:expr, $sp:expr, $op:tt, $opa:tt) => {{
        let a: TwoFloat = $a;
        let b: f64 = $b;
        match $sp {
            "vv" => a $op b,
            "rv" => &a $op b,
            "vr" => a $op &b,
            "rr" => &a $op &b,
            "av" => { let mut t = a; t $opa b; t }
            "ar" => { let mut t = a; t $opa &b; t }
            _ => panic!("harness: bad spelling"),
        }
    }};
}
macro_rules! bin_ft {
    ($a:expr, $b:expr, $sp:expr, $op:tt) => {{
        let a: f64 = $a;
        let b: TwoFloat = $b;
        match $sp {
            "vv" => a $op b,
            "rv" => &a $op b,
            "vr" => a $op &b,
            "rr" => &a $op &b,
            _ => panic!("harness: bad spelling"),
        }
    }};
}
macro_rules! binop {
    ($v:expr, $sp:expr, $op:tt, $opa:tt) => {
        match (&$v[0], &$v[1]) {
            (V::TF(a), V::TF(b)) => Out::TF(bin_tt!(*a, *b, $sp, $op, $opa)),
            (V::TF(a), V::F(b)) => Out::TF(bin_tf!(*a, *b, $sp, $op, $opa)),
            (V::F(a), V::TF(b)) => Out::TF(bin_ft!(*a, *b, $sp, $op)),
            _ => panic!("harness: bad operand types"),
        }
    };
}
macro_rules! cmpop {
    ($v:expr, $op:tt) => {
        match (&$v[0], &$v[1]) {
            (V::TF(a), V::TF(b)) => Out::B(a $op b),
            (V::TF(a), V::F(b)) => Out::B(a $op b),
            (V::F(a), V::TF(b)) => Out::B(a $op b),
            _ => panic!("harness: bad operand types"),
        }
    };
}
/// unary TwoFloat -> TwoFloat with inherent / Float / FloatCore spellings
macro_rules! un3 {
    ($x:expr, $sp:expr, $m:ident) => {
        match $sp {
            "inh" => Out::TF(TwoFloat::$m($x)),
            "Float" => Out::TF(<TwoFloat as num_traits::Float>::$m($x)),
            "FloatCore" => Out::TF(<TwoFloat as num_traits::float::FloatCore>::$m($x)),
            _ => panic!("harness: bad spelling"),
        }
    };
}
/// unary math function with inherent / Float spellings
macro_rules! un2 {
    ($x:expr, $sp:expr, $m:ident) => {
        match $sp {
            "inh" => Out::TF(TwoFloat::$m($x)),
            "Float" => Out::TF(<TwoFloat as num_traits::Float>::$m($x)),
            _ => panic!("harness: bad spelling"),
        }
    };
}
macro_rules! bin2 {
    ($x:expr, $y:expr, $sp:expr, $m:ident) => {
        match $sp {
            "inh" => Out::TF(TwoFloat::$m($x, $y)),
            "Float" => Out::TF(<TwoFloat as num_traits::Float>::$m($x, $y)),
            _ => panic!("harness: bad spelling"),
        }
    };
}

macro_rules! from_int_ty {
    ($v:expr, $sp:expr, $ty:ty, $fp:ident) => {{
        let n = as_i128($v) as $ty;
        match $sp {
            "From" => Out::TF(TwoFloat::from(n)),
            "FromPrimitive" => match <TwoFloat as FromPrimitive>::$fp(n) {
                Some(x) => Out::TF(x),
                None => Out::None,
            },
            "NumCast" => match <TwoFloat as num_traits::NumCast>::from(n) {
                Some(x) => Out::TF(x),
                None => Out::None,
            },
            _ => panic!("harness: bad spelling"),
        }
    }};
}
macro_rules! try_into_ty {
    ($x:expr, $sp:expr, $ty:ty, $tp:ident) => {{
        let x: TwoFloat = $x;
        let r: Option<$ty> = match $sp {
            "TryFrom_v" => <$ty>::try_from(x).ok(),
            "TryFrom_r" => <$ty>::try_from(&x).ok(),
            "ToPrimitive" => <TwoFloat as ToPrimitive>::$tp(&x),
            _ => panic!("harness: bad spelling"),
        };
        match r {
            Some(v) => {
                let w = v as i128;
                // u128 values above i128::MAX: take the magnitude from the unsigned view
                if (v as u128) > (i128::MAX as u128) && <$ty>::MIN as i128 == 0 {
                    Out::I(false, v as u128)
                } else {
                    Out::I(w < 0, w.unsigned_abs())
                }
            }
            None => Out::Err,
        }
    }};
}

fn constant(name: &str, sp: &str) -> TwoFloat {
    use twofloat::consts as c;
    macro_rules! k {
        ($n:ident) => {
            match sp {
                "consts" => c::$n,
                "FloatConst" => <TwoFloat as FloatConst>::$n(),
                _ => panic!("harness: bad spelling"),
            }
        };
    }
    match name {
        "E" => k!(E),
        "FRAC_1_PI" => k!(FRAC_1_PI),
        "FRAC_2_PI" => k!(FRAC_2_PI),
        "FRAC_2_SQRT_PI" => k!(FRAC_2_SQRT_PI),
        "FRAC_1_SQRT_2" => k!(FRAC_1_SQRT_2),
        "FRAC_PI_2" => k!(FRAC_PI_2),
        "FRAC_PI_3" => k!(FRAC_PI_3),
        "FRAC_PI_4" => k!(FRAC_PI_4),
        "FRAC_PI_6" => k!(FRAC_PI_6),
        "FRAC_PI_8" => k!(FRAC_PI_8),
        "LN_2" => k!(LN_2),
        "LN_10" => k!(LN_10),
        "LOG2_E" => k!(LOG2_E),
        "LOG10_E" => k!(LOG10_E),
        "LOG10_2" => k!(LOG10_2),
        "LOG2_10" => k!(LOG2_10),
        "PI" => k!(PI),
        "SQRT_2" => k!(SQRT_2),
        "TAU" => k!(TAU),
        "MAX" => match sp {
            "assoc" => TwoFloat::MAX,
            "Bounded" => <TwoFloat as Bounded>::max_value(),
            "Float" => <TwoFloat as num_traits::Float>::max_value(),
            "FloatCore" => <TwoFloat as num_traits::float::FloatCore>::max_value(),
            _ => panic!("harness: bad spelling"),
        },
        "MIN" => match sp {
            "assoc" => TwoFloat::MIN,
            "Bounded" => <TwoFloat as Bounded>::min_value(),
            "Float" => <TwoFloat as num_traits::Float>::min_value(),
            "FloatCore" => <TwoFloat as num_traits::float::FloatCore>::min_value(),
            _ => panic!("harness: bad spelling"),
        },
        "MIN_POSITIVE" => match sp {
            "assoc" => TwoFloat::MIN_POSITIVE,
            "Float" => <TwoFloat as num_traits::Float>::min_positive_value(),
            "FloatCore" => <TwoFloat as num_traits::float::FloatCore>::min_positive_value(),
            _ => panic!("harness: bad spelling"),
        },
        "EPSILON" => match sp {
            "assoc" => TwoFloat::EPSILON,
            "Float" => <TwoFloat as num_traits::Float>::epsilon(),
            "FloatCore" => <TwoFloat as num_traits::float::FloatCore>::epsilon(),
            _ => panic!("harness: bad spelling"),
        },
        "NAN" => match sp {
            "assoc" => TwoFloat::NAN,
            "Float" => <TwoFloat as num_traits::Float>::nan(),
            "FloatCore" => <TwoFloat as num_traits::float::FloatCore>::nan(),
            _ => panic!("harness: bad spelling"),
        },
        "INFINITY" => match sp {
            "assoc" => TwoFloat::INFINITY,
            "Float" => <TwoFloat as num_traits::Float>::infinity(),
            "FloatCore" => <TwoFloat as num_traits::float::FloatCore>::infinity(),
            _ => panic!("harness: bad spelling"),
        },
        "NEG_INFINITY" => match sp {
            "assoc" => TwoFloat::NEG_INFINITY,
            "Float" => <TwoFloat as num_traits::Float>::neg_infinity(),
            "FloatCore" => <TwoFloat as num_traits::float::FloatCore>::neg_infinity(),
            _ => panic!("harness: bad spelling"),
        },
        "ZERO" => match sp {
            "Zero" => <TwoFloat as Zero>::zero(),
            "default" => TwoFloat::default(),
            "from" => TwoFloat::from(0.0),
            _ => panic!("harness: bad spelling"),
        },
        "ONE" => match sp {
            "One" => <TwoFloat as One>::one(),
            "from" => TwoFloat::from(1.0),
            _ => panic!("harness: bad spelling"),
        },
        "NEG_ZERO" => match sp {
            "Float" => <TwoFloat as num_traits::Float>::neg_zero(),
            "FloatCore" => <TwoFloat as num_traits::float::FloatCore>::neg_zero(),
            "from" => TwoFloat::from(-0.0),
            _ => panic!("harness: bad spelling"),
        },
        _ => panic!("harness: unknown constant"),
    }
}

/// format with the real `fmt` impls; flags = "" | "+", precision < 0 = none
fn fmt_tf(x: TwoFloat, tr: &str, plus: bool, prec: i64) -> String {
    match (tr, plus, prec >= 0) {
        ("display", false, false) => format!("{}", x),
        ("display", true, false) => format!("{:+}", x),
        ("display", false, true) => format!("{:.*}", prec as usize, x),
        ("display", true, true) => format!("{:+.*}", prec as usize, x),
        ("lower", false, false) => format!("{:e}", x),
        ("lower", true, false) => format!("{:+e}", x),
        ("lower", false, true) => format!("{:.*e}", prec as usize, x),
        ("lower", true, true) => format!("{:+.*e}", prec as usize, x),
        ("upper", false, false) => format!("{:E}", x),
        ("upper", true, false) => format!("{:+E}", x),
        ("upper", false, true) => format!("{:.*E}", prec as usize, x),
        ("upper", true, true) => format!("{:+.*E}", prec as usize, x),
        _ => panic!("harness: bad format request"),
    }
}
/// the reference rendering of one f64 that the property names
fn fmt_f64(x: f64, tr: &str, plus: bool, prec: i64) -> String {
    match (tr, plus, prec >= 0) {
        ("display", false, false) => format!("{}", x),
        ("display", true, false) => format!("{:+}", x),
        ("display", false, true) => format!("{:.*}", prec as usize, x),
        ("display", true, true) => format!("{:+.*}", prec as usize, x),
        ("lower", false, false) => format!("{:e}", x),
        ("lower", true, false) => format!("{:+e}", x),
        ("lower", false, true) => format!("{:.*e}", prec as usize, x),
        ("lower", true, true) => format!("{:+.*e}", prec as usize, x),
        ("upper", false, false) => format!("{:E}", x),
        ("upper", true, false) => format!("{:+E}", x),
        ("upper", false, true) => format!("{:.*E}", prec as usize, x),
        ("upper", true, true) => format!("{:+.*E}", prec as usize, x),
        _ => panic!("harness: bad format request"),
    }
}

pub fn exec(op: &str, sp: &str, v: &[V]) -> Out {
    use crate::enc;
    match op {
        // ------------------------------------------------------------ construction / validity
        "try_from" => {
            let (a, b) = (f(&v[0]), f(&v[1]));
            let r = match sp {
                "tuple" => TwoFloat::try_from((a, b)),
                "array" => TwoFloat::try_from([a, b]),
                _ => panic!("harness: bad spelling"),
            };
            match r {
                Ok(x) => Out::TF(x),
                Err(_) => Out::Err,
            }
        }
        "into_pair" => {
            let x = tf(&v[0]);
            match sp {
                "tuple_v" => {
                    let (a, b): (f64, f64) = x.into();
                    Out::FF(a, b)
                }
                "tuple_r" => {
                    let (a, b): (f64, f64) = (&x).into();
                    Out::FF(a, b)
                }
                "array_v" => {
                    let a: [f64; 2] = x.into();
                    Out::FF(a[0], a[1])
                }
                "array_r" => {
                    let a: [f64; 2] = (&x).into();
                    Out::FF(a[0], a[1])
                }
                "hi_lo" => Out::FF(x.hi(), x.lo()),
                _ => panic!("harness: bad spelling"),
            }
        }
        "no_overlap" => Out::B(twofloat::no_overlap(f(&v[0]), f(&v[1]))),
        "is_valid" => Out::B(tf(&v[0]).is_valid()),
        "new_add" => Out::TF(TwoFloat::new_add(f(&v[0]), f(&v[1]))),
        "new_sub" => Out::TF(TwoFloat::new_sub(f(&v[0]), f(&v[1]))),
        "new_mul" => Out::TF(TwoFloat::new_mul(f(&v[0]), f(&v[1]))),
        "new_div" => Out::TF(TwoFloat::new_div(f(&v[0]), f(&v[1]))),
        "from_f64" => {
            let a = f(&v[0]);
            Out::TF(match sp {
                "From" => TwoFloat::from(a),
                "from_f64" => TwoFloat::from_f64(a),
                "Into" => a.into(),
                "NumCast" => <TwoFloat as num_traits::NumCast>::from(a).unwrap(),
                _ => panic!("harness: bad spelling"),
            })
        }
        "from_f32" => {
            let a = match &v[0] {
                V::F32(x) => *x,
                _ => panic!("harness: expected f32"),
            };
            Out::TF(match sp {
                "From" => TwoFloat::from(a),
                _ => panic!("harness: bad spelling"),
            })
        }
        "to_f64" => {
            let x = tf(&v[0]);
            match sp {
                "From_v" => Out::F(f64::from(x)),
                "From_r" => Out::F(f64::from(&x)),
                "ToPrimitive" => Out::F(<TwoFloat as ToPrimitive>::to_f64(&x).unwrap()),
                "hi" => Out::F(x.hi()),
                _ => panic!("harness: bad spelling"),
            }
        }
        "to_f32" => {
            let x = tf(&v[0]);
            match sp {
                "From_v" => Out::F32(f32::from(x)),
                "From_r" => Out::F32(f32::from(&x)),
                "ToPrimitive" => Out::F32(<TwoFloat as ToPrimitive>::to_f32(&x).unwrap()),
                _ => panic!("harness: bad spelling"),
            }
        }
        // ------------------------------------------------------------ operators
        "add" => binop!(v, sp, +, +=),
        "sub" => binop!(v, sp, -, -=),
        "mul" => binop!(v, sp, *, *=),
        "div" => binop!(v, sp, /, /=),
        "rem" => binop!(v, sp, %, %=),
        "neg" => {
            let x = tf(&v[0]);
            Out::TF(match sp {
                "v" => -x,
                "r" => -&x,
                _ => panic!("harness: bad spelling"),
            })
        }
        "div_euclid" => Out::TF(tf(&v[0]).div_euclid(tf(&v[1]))),
        "rem_euclid" => Out::TF(tf(&v[0]).rem_euclid(tf(&v[1]))),
        "recip" => {
            let x = tf(&v[0]);
            Out::TF(match sp {
                "inh" => x.recip(),
                "Inv_v" => Inv::inv(x),
                "Inv_r" => Inv::inv(&x),
                "Float" => <TwoFloat as num_traits::Float>::recip(x),
                "FloatCore" => <TwoFloat as num_traits::float::FloatCore>::recip(x),
                "one_div" => 1.0 / x,
                _ => panic!("harness: bad spelling"),
            })
        }
        "powi" => {
            let x = tf(&v[0]);
            let n = as_i128(&v[1]) as i32;
            Out::TF(match sp {
                "inh" => x.powi(n),
                "Float" => <TwoFloat as num_traits::Float>::powi(x, n),
                "FloatCore" => <TwoFloat as num_traits::float::FloatCore>::powi(x, n),
                "Pow_i32_vv" => Pow::pow(x, n),
                "Pow_i32_rv" => Pow::pow(&x, n),
                "Pow_i32_vr" => Pow::pow(x, &n),
                "Pow_i32_rr" => Pow::pow(&x, &n),
                "Pow_i8" => Pow::pow(x, n as i8),
                "Pow_i16" => Pow::pow(x, n as i16),
                "Pow_u8" => Pow::pow(x, n as u8),
                "Pow_u16" => Pow::pow(x, n as u16),
                _ => panic!("harness: bad spelling"),
            })
        }
        "mul_add" => Out::TF(<TwoFloat as num_traits::Float>::mul_add(tf(&v[0]), tf(&v[1]), tf(&v[2]))),
        "abs_sub" => {
            let (x, y) = (tf(&v[0]), tf(&v[1]));
            Out::TF(match sp {
                "Signed" => <TwoFloat as Signed>::abs_sub(&x, &y),
                "Float" => {
                    #[allow(deprecated)]
                    <TwoFloat as num_traits::Float>::abs_sub(x, y)
                }
                _ => panic!("harness: bad spelling"),
            })
        }
        // ------------------------------------------------------------ sign / ordering utilities
        "abs" => {
            let x = tf(&v[0]);
            Out::TF(match sp {
                "inh" => x.abs(),
                "Signed" => <TwoFloat as Signed>::abs(&x),
                "Float" => <TwoFloat as num_traits::Float>::abs(x),
                "FloatCore" => <TwoFloat as num_traits::float::FloatCore>::abs(x),
                _ => panic!("harness: bad spelling"),
            })
        }
        "signum" => {
            let x = tf(&v[0]);
            Out::TF(match sp {
                "inh" => x.signum(),
                "Signed" => <TwoFloat as Signed>::signum(&x),
                "Float" => <TwoFloat as num_traits::Float>::signum(x),
                "FloatCore" => <TwoFloat as num_traits::float::FloatCore>::signum(x),
                _ => panic!("harness: bad spelling"),
            })
        }
        "copysign" => Out::TF(tf(&v[0]).copysign(&tf(&v[1]))),
        "is_sign_positive" => {
            let x = tf(&v[0]);
            Out::B(match sp {
                "inh" => x.is_sign_positive(),
                "Signed" => <TwoFloat as Signed>::is_positive(&x),
                "Float" => <TwoFloat as num_traits::Float>::is_sign_positive(x),
                "FloatCore" => <TwoFloat as num_traits::float::FloatCore>::is_sign_positive(x),
                _ => panic!("harness: bad spelling"),
            })
        }
        "is_sign_negative" => {
            let x = tf(&v[0]);
            Out::B(match sp {
                "inh" => x.is_sign_negative(),
                "Signed" => <TwoFloat as Signed>::is_negative(&x),
                "Float" => <TwoFloat as num_traits::Float>::is_sign_negative(x),
                "FloatCore" => <TwoFloat as num_traits::float::FloatCore>::is_sign_negative(x),
                _ => panic!("harness: bad spelling"),
            })
        }
        "min" => {
            let (x, y) = (tf(&v[0]), tf(&v[1]));
            Out::TF(match sp {
                "inh" => x.min(y),
                "Float" => <TwoFloat as num_traits::Float>::min(x, y),
                "FloatCore" => <TwoFloat as num_traits::float::FloatCore>::min(x, y),
                _ => panic!("harness: bad spelling"),
            })
        }
        "max" => {
            let (x, y) = (tf(&v[0]), tf(&v[1]));
            Out::TF(match sp {
                "inh" => x.max(y),
                "Float" => <TwoFloat as num_traits::Float>::max(x, y),
                "FloatCore" => <TwoFloat as num_traits::float::FloatCore>::max(x, y),
                _ => panic!("harness: bad spelling"),
            })
        }
        "eq" => cmpop!(v, ==),
        "ne" => cmpop!(v, !=),
        "lt" => cmpop!(v, <),
        "le" => cmpop!(v, <=),
        "gt" => cmpop!(v, >),
        "ge" => cmpop!(v, >=),
        "pcmp" => match (&v[0], &v[1]) {
            (V::TF(a), V::TF(b)) => Out::Ord(a.partial_cmp(b)),
            (V::TF(a), V::F(b)) => Out::Ord(a.partial_cmp(b)),
            (V::F(a), V::TF(b)) => Out::Ord(a.partial_cmp(b)),
            _ => panic!("harness: bad operand types"),
        },
        "is_zero" => Out::B(<TwoFloat as Zero>::is_zero(&tf(&v[0]))),
        "classify" => {
            let x = tf(&v[0]);
            let c = match sp {
                "Float" => <TwoFloat as num_traits::Float>::classify(x),
                "FloatCore" => <TwoFloat as num_traits::float::FloatCore>::classify(x),
                _ => panic!("harness: bad spelling"),
            };
            Out::Str(format!("{:?}", c))
        }
        "is_nan" => Out::B(<TwoFloat as num_traits::Float>::is_nan(tf(&v[0]))),
        "is_infinite" => Out::B(<TwoFloat as num_traits::Float>::is_infinite(tf(&v[0]))),
        "is_finite" => Out::B(<TwoFloat as num_traits::Float>::is_finite(tf(&v[0]))),
        "is_normal" => Out::B(<TwoFloat as num_traits::Float>::is_normal(tf(&v[0]))),
        "integer_decode" => {
            let (m, e, sg) = <TwoFloat as num_traits::Float>::integer_decode(tf(&v[0]));
            Out::Str(format!("{} {} {}", m, e, sg))
        }
        "from_str_radix" => match <TwoFloat as num_traits::Num>::from_str_radix(s(&v[0]), 10) {
            Ok(x) => Out::TF(x),
            Err(e) => Out::Str(format!("{}", e)),
        },
        // ------------------------------------------------------------ rounding
        "floor" => un3!(tf(&v[0]), sp, floor),
        "ceil" => un3!(tf(&v[0]), sp, ceil),
        "round" => un3!(tf(&v[0]), sp, round),
        "trunc" => un3!(tf(&v[0]), sp, trunc),
        "fract" => un3!(tf(&v[0]), sp, fract),
        "to_degrees" => un3!(tf(&v[0]), sp, to_degrees),
        "to_radians" => un3!(tf(&v[0]), sp, to_radians),
        // ------------------------------------------------------------ integer conversions
        "from_int" => {
            let (_, _, ty) = int(&v[0]);
            match ty {
                "i8" => from_int_ty!(&v[0], sp, i8, from_i8),
                "i16" => from_int_ty!(&v[0], sp, i16, from_i16),
                "i32" => from_int_ty!(&v[0], sp, i32, from_i32),
                "i64" => from_int_ty!(&v[0], sp, i64, from_i64),
                "i128" => from_int_ty!(&v[0], sp, i128, from_i128),
                "isize" => from_int_ty_nofrom(&v[0], sp, true),
                "usize" => from_int_ty_nofrom(&v[0], sp, false),
                "u8" => from_int_ty!(&v[0], sp, u8, from_u8),
                "u16" => from_int_ty!(&v[0], sp, u16, from_u16),
                "u32" => from_int_ty!(&v[0], sp, u32, from_u32),
                "u64" => from_int_ty!(&v[0], sp, u64, from_u64),
                "u128" => {
                    let (_, m, _) = int(&v[0]);
                    match sp {
                        "From" => Out::TF(TwoFloat::from(m)),
                        "FromPrimitive" => match <TwoFloat as FromPrimitive>::from_u128(m) {
                            Some(x) => Out::TF(x),
                            None => Out::None,
                        },
                        "NumCast" => match <TwoFloat as num_traits::NumCast>::from(m) {
                            Some(x) => Out::TF(x),
                            None => Out::None,
                        },
                        _ => panic!("harness: bad spelling"),
                    }
                }
                _ => panic!("harness: bad int type"),
            }
        }
        "try_into" => {
            let x = tf(&v[0]);
            match s(&v[1]) {
                "i8" => try_into_ty!(x, sp, i8, to_i8),
                "i16" => try_into_ty!(x, sp, i16, to_i16),
                "i32" => try_into_ty!(x, sp, i32, to_i32),
                "i64" => try_into_ty!(x, sp, i64, to_i64),
                "i128" => try_into_ty!(x, sp, i128, to_i128),
                "u8" => try_into_ty!(x, sp, u8, to_u8),
                "u16" => try_into_ty!(x, sp, u16, to_u16),
                "u32" => try_into_ty!(x, sp, u32, to_u32),
                "u64" => try_into_ty!(x, sp, u64, to_u64),
                "u128" => try_into_ty!(x, sp, u128, to_u128),
                "isize" => match <TwoFloat as ToPrimitive>::to_isize(&x) {
                    Some(w) => Out::I(w < 0, (w as i128).unsigned_abs()),
                    None => Out::Err,
                },
                "usize" => match <TwoFloat as ToPrimitive>::to_usize(&x) {
                    Some(w) => Out::I(false, w as u128),
                    None => Out::Err,
                },
                _ => panic!("harness: bad int type"),
            }
        }
        // ------------------------------------------------------------ constants
        "const" => Out::TF(constant(s(&v[0]), sp)),
        #[cfg(twofloat_verif)]
        "fma" => Out::F(twofloat::__verif_fma(f(&v[0]), f(&v[1]), f(&v[2]))),
        // ------------------------------------------------------------ sums
        "sum" => match (&v[0], sp) {
            (V::TL(xs), "sum_v") => Out::TF(xs.iter().copied().sum::<TwoFloat>()),
            (V::TL(xs), "sum_r") => Out::TF(xs.iter().sum::<TwoFloat>()),
            (V::TL(xs), "fold") => Out::TF(xs.iter().fold(TwoFloat::from(0.0), |a, b| a + *b)),
            (V::FL(xs), "sum_v") => Out::TF(xs.iter().copied().sum::<TwoFloat>()),
            (V::FL(xs), "sum_r") => Out::TF(xs.iter().sum::<TwoFloat>()),
            (V::FL(xs), "fold") => Out::TF(xs.iter().fold(TwoFloat::from(0.0), |a, b| a + *b)),
            _ => panic!("harness: bad sum request"),
        },
        // ------------------------------------------------------------ elementary functions
        "sqrt" => un2!(tf(&v[0]), sp, sqrt),
        "cbrt" => un2!(tf(&v[0]), sp, cbrt),
        "exp" => un2!(tf(&v[0]), sp, exp),
        "exp2" => un2!(tf(&v[0]), sp, exp2),
        "exp_m1" => un2!(tf(&v[0]), sp, exp_m1),
        "ln" => un2!(tf(&v[0]), sp, ln),
        "log2" => un2!(tf(&v[0]), sp, log2),
        "log10" => un2!(tf(&v[0]), sp, log10),
        "ln_1p" => un2!(tf(&v[0]), sp, ln_1p),
        "sin" => un2!(tf(&v[0]), sp, sin),
        "cos" => un2!(tf(&v[0]), sp, cos),
        "tan" => un2!(tf(&v[0]), sp, tan),
        "asin" => un2!(tf(&v[0]), sp, asin),
        "acos" => un2!(tf(&v[0]), sp, acos),
        "atan" => un2!(tf(&v[0]), sp, atan),
        "sinh" => un2!(tf(&v[0]), sp, sinh),
        "cosh" => un2!(tf(&v[0]), sp, cosh),
        "tanh" => un2!(tf(&v[0]), sp, tanh),
        "asinh" => un2!(tf(&v[0]), sp, asinh),
        "acosh" => un2!(tf(&v[0]), sp, acosh),
        "atanh" => un2!(tf(&v[0]), sp, atanh),
        "hypot" => bin2!(tf(&v[0]), tf(&v[1]), sp, hypot),
        "atan2" => bin2!(tf(&v[0]), tf(&v[1]), sp, atan2),
        "log" => bin2!(tf(&v[0]), tf(&v[1]), sp, log),
        "powf" => {
            let x = tf(&v[0]);
            match (&v[1], sp) {
                (V::TF(y), "inh") => Out::TF(x.powf(*y)),
                (V::TF(y), "Float") => Out::TF(<TwoFloat as num_traits::Float>::powf(x, *y)),
                (V::TF(y), "Pow_vv") => Out::TF(Pow::pow(x, *y)),
                (V::TF(y), "Pow_rr") => Out::TF(Pow::pow(&x, y)),
                (V::F(y), "Pow_f64_vv") => Out::TF(Pow::pow(x, *y)),
                (V::F(y), "Pow_f64_rr") => Out::TF(Pow::pow(&x, y)),
                _ => panic!("harness: bad powf request"),
            }
        }
        "sin_cos" => {
            let x = tf(&v[0]);
            let (a, b) = match sp {
                "inh" => x.sin_cos(),
                "Float" => <TwoFloat as num_traits::Float>::sin_cos(x),
                _ => panic!("harness: bad spelling"),
            };
            Out::TF2(a, b)
        }
        // ------------------------------------------------------------ text
        "fmt" => {
            let x = tf(&v[0]);
            let tr = s(&v[1]);
            let plus = s(&v[2]) == "+";
            let prec = as_i128(&v[3]) as i64;
            let out = fmt_tf(x, tr, plus, prec);
            // tokens as the property reads them: split at single spaces
            let toks: Vec<&str> = out.split(' ').collect();
            let parse = |t: &str| -> String {
                match t.parse::<f64>() {
                    Ok(w) => format!("{{\"ok\":true,\"w\":{}}}", enc::word(w)),
                    Err(_) => "{\"ok\":false}".to_string(),
                }
            };
            let p1 = if !toks.is_empty() { parse(toks[0]) } else { "{\"ok\":false}".to_string() };
            let p2 = if toks.len() > 2 { parse(toks[2]) } else { "{\"ok\":false}".to_string() };
            let ref_hi = fmt_f64(x.hi(), tr, plus, prec);
            let ref_lo = fmt_f64(x.lo().abs(), tr, false, prec);
            Out::Raw(format!(
                "{{\"t\":\"fmt\",\"c\":{},\"ntok\":{},\"p1\":{},\"p2\":{},\"ref_hi\":{},\"ref_lo\":{}}}",
                enc::chars(&out),
                toks.len(),
                p1,
                p2,
                enc::chars(&ref_hi),
                enc::chars(&ref_lo)
            ))
        }
        "err_display" => Out::Str(match s(&v[0]) {
            "conversion" => format!("{}", TwoFloat::try_from((1.0, 1.0)).unwrap_err()),
            "parse" => format!("{}", <TwoFloat as num_traits::Num>::from_str_radix("1", 10).unwrap_err()),
            _ => panic!("harness: bad request"),
        }),
        #[cfg(feature = "serde")]
        "ser_json" | "ser_tokens" | "rt_json" | "de_seq" | "de_map" | "de_json" => crate::serde_ops::exec(op, sp, v),
        o if o.starts_with("h_") => Out::None,
        _ => panic!("harness: unknown op {}", op),
    }
}

fn from_int_ty_nofrom(v: &V, sp: &str, signed: bool) -> Out {
    let n = as_i128(v);
    let r = match (sp, signed) {
        ("FromPrimitive", true) => <TwoFloat as FromPrimitive>::from_isize(n as isize),
        ("FromPrimitive", false) => <TwoFloat as FromPrimitive>::from_usize(n as usize),
        ("NumCast", true) => <TwoFloat as num_traits::NumCast>::from(n as isize),
        ("NumCast", false) => <TwoFloat as num_traits::NumCast>::from(n as usize),
        _ => panic!("harness: bad spelling"),
    };
    match r {
        Some(x) => Out::TF(x),
        None => Out::None,
    }
}
