//! Small deterministic PRNG (xoshiro256**, seeded with splitmix64) and operand generators.

pub struct Rng {
    s: [u64; 4],
    pub ticks: u64,
}

impl Rng {
    pub fn new(seed: u64) -> Self {
        let mut z = seed.wrapping_add(0x9e3779b97f4a7c15);
        let mut s = [0u64; 4];
        for x in s.iter_mut() {
            z = z.wrapping_add(0x9e3779b97f4a7c15);
            let mut y = z;
            y = (y ^ (y >> 30)).wrapping_mul(0xbf58476d1ce4e5b9);
            y = (y ^ (y >> 27)).wrapping_mul(0x94d049bb133111eb);
            *x = y ^ (y >> 31);
        }
        Rng { s, ticks: 0 }
    }
    /// a counter for round-robin stratification (every stratum is visited in turn)
    pub fn tick(&mut self) -> u64 {
        self.ticks += 1;
        self.ticks
    }
    pub fn next(&mut self) -> u64 {
        let r = self.s[1].wrapping_mul(5).rotate_left(7).wrapping_mul(9);
        let t = self.s[1] << 17;
        self.s[2] ^= self.s[0];
        self.s[3] ^= self.s[1];
        self.s[1] ^= self.s[2];
        self.s[0] ^= self.s[3];
        self.s[2] ^= t;
        self.s[3] = self.s[3].rotate_left(45);
        r
    }
    pub fn below(&mut self, n: u64) -> u64 {
        self.next() % n
    }
    /// uniform integer in [lo, hi]
    pub fn range(&mut self, lo: i64, hi: i64) -> i64 {
        lo + (self.next() % ((hi - lo + 1) as u64)) as i64
    }
    pub fn coin(&mut self) -> bool {
        self.next() & 1 == 1
    }
    pub fn pick<'a, T>(&mut self, v: &'a [T]) -> &'a T {
        &v[self.below(v.len() as u64) as usize]
    }
    pub fn u128(&mut self) -> u128 {
        ((self.next() as u128) << 64) | self.next() as u128
    }

    /// a 52-bit fraction field drawn from structured classes
    pub fn frac52(&mut self) -> u64 {
        let m = (1u64 << 52) - 1;
        match self.below(10) {
            0 => 0,                                 // power of two
            1 => m,                                 // all ones
            2 => 1,                                 // odd, just above a power of two
            3 => m - 1,                             // all ones but even
            4 => self.next() & m & !1,              // random even
            5 => (self.next() & m) | 1,             // random odd
            6 => 1u64 << self.below(52),            // single extra bit
            7 => (self.next() & m) & (self.next() & m) & (self.next() & m), // sparse
            _ => self.next() & m,
        }
    }
    /// finite non-zero f64 with unbiased exponent in [emin, emax] (normal range), structured mantissa
    pub fn f64_in(&mut self, emin: i32, emax: i32) -> f64 {
        let e = self.range(emin as i64, emax as i64);
        let bits = (((e + 1023) as u64) << 52) | self.frac52();
        let x = f64::from_bits(bits);
        if self.coin() {
            -x
        } else {
            x
        }
    }
    /// fully random finite f64 bit pattern in the exponent range (uniform mantissa)
    pub fn f64_uniform_mant(&mut self, emin: i32, emax: i32) -> f64 {
        let e = self.range(emin as i64, emax as i64);
        let bits = (((e + 1023) as u64) << 52) | (self.next() & ((1u64 << 52) - 1)) | ((self.next() & 1) << 63);
        f64::from_bits(bits)
    }
}

pub fn exponent(x: f64) -> i32 {
    // unbiased exponent of a normal f64
    (((x.to_bits() >> 52) & 0x7ff) as i32) - 1023
}
pub fn pow2(e: i32) -> f64 {
    if e >= -1022 {
        f64::from_bits(((e + 1023) as u64) << 52)
    } else if e >= -1074 {
        f64::from_bits(1u64 << (e + 1074))
    } else {
        0.0
    }
}
pub fn next_up_mag(x: f64) -> f64 {
    f64::from_bits(x.to_bits() + 1)
}
pub fn next_down_mag(x: f64) -> f64 {
    if x == 0.0 {
        x
    } else {
        f64::from_bits(x.to_bits() - 1)
    }
}

/// Candidate low word for a given (normal) high word.  The candidate may be invalid
/// (e.g. a tie beside an odd high word): the caller loads it through the checked constructor.
pub fn lo_candidate(r: &mut Rng, hi: f64) -> f64 {
    if hi == 0.0 || !hi.is_finite() {
        return if r.coin() { 0.0 } else { -0.0 };
    }
    let e = exponent(hi);
    let half = pow2(e - 53);
    let quarter = pow2(e - 54);
    let sg = if r.coin() { 1.0 } else { -1.0 };
    let v = match r.below(16) {
        0 => 0.0,
        1 => half,                     // the tie: valid only beside an even significand
        2 => next_down_mag(half),      // just below the tie
        3 => quarter,                  // limit below a power of two
        4 => next_down_mag(quarter),
        5 => next_up_mag(quarter),
        6 => pow2(-1074),              // least subnormal
        7 => f64::from_bits(r.next() & ((1u64 << 52) - 1)), // random subnormal
        8 => {
            // few significant bits, a few binades below the tie
            let g = r.range(1, 8) as i32;
            pow2(e - 53 - g) * (1.0 + (r.below(8) as f64) / 8.0)
        }
        9 => {
            // far below
            let g = r.range(20, 900) as i32;
            let ee = e - 53 - g;
            if ee < -1070 {
                pow2(-1074)
            } else {
                f64::from_bits((((ee + 1023).max(1)) as u64) << 52 | r.frac52())
            }
        }
        _ => {
            // generic: full random mantissa 1..6 binades below the tie
            let g = r.range(1, 6) as i32;
            let ee = e - 53 - g;
            if ee < -1022 {
                f64::from_bits(r.next() & ((1u64 << 50) - 1))
            } else {
                f64::from_bits(((ee + 1023) as u64) << 52 | (r.next() & ((1u64 << 52) - 1)))
            }
        }
    };
    sg * v
}
