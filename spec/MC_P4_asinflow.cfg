SPECIFICATION Spec
CONSTANTS
  P = 4
  EMIN <- EMIN_WIDE
  EMAX <- EMAX_WIDE
  MODE = "asinflow"
  E0 <- E0_M5
  GAP = 2
  LOW = 12
  WBITS = 8
INVARIANT NoBad
POSTCONDITION Report
CHECK_DEADLOCK FALSE
