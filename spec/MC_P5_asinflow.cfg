SPECIFICATION Spec
CONSTANTS
  P = 5
  EMIN <- EMIN_WIDE
  EMAX <- EMAX_WIDE
  MODE = "asinflow"
  E0 <- E0_LOW
  GAP = 2
  LOW = 14
  WBITS = 8
INVARIANT NoBad
POSTCONDITION Report
CHECK_DEADLOCK FALSE
