INIT Init
NEXT Next
