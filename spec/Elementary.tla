----------------------------- MODULE Elementary -----------------------------
(***************************************************************************)
(* Enclosures (balls) of pi, ln 2, ln 10 and of exp, expm1, sin, cos at    *)
(* ball arguments.  Everything is a finite series evaluated in ball        *)
(* arithmetic with an explicit remainder bound; inverse functions are not  *)
(* computed, they are checked through these forward functions.             *)
(* SelfTest_Elementary compares the enclosures with 250-bit literals.      *)
(***************************************************************************)
EXTENDS Ball

\* ---- constants by fixed-point integer series (FB fractional bits) ---------------------
FB == 16 * W                  \* 240 fractional bits
FOne == Pow2N(FB)

\* sum_{k>=0} x^(2k+1)/(2k+1) (alt = FALSE: atanh) or with alternating signs (alt = TRUE: atan)
\* for x = 1/q, q a small integer (q*q < 2^15 or divide twice); truncation: every DivLimb floors,
\* so each term carries an error < 2 units; N terms => error < 2N+2 units (plus the series tail)
SeriesInv(q, alt, N) ==
  LET step(acc, k) ==
        LET t == IF k = 0 THEN DivLimb(FOne, q).q ELSE DivLimb(DivLimb(acc.t, q).q, q).q
            c == DivLimb(t, 2 * k + 1).q
        IN [t |-> t,
            pos |-> IF alt /\ k % 2 = 1 THEN acc.pos ELSE Add(acc.pos, c),
            neg |-> IF alt /\ k % 2 = 1 THEN Add(acc.neg, c) ELSE acc.neg]
      r == FoldLeft(step, [t |-> <<>>, pos |-> <<>>, neg |-> <<>>], [i \in 1..N |-> i - 1])
  IN Sub(r.pos, r.neg)

\* the tail of both series after N terms is < x^(2N+1) which is < 1 unit for the N chosen below
\* (9^-76 < 2^-240, 81^-38 < 2^-240, 25^-52 < 2^-240, 239^-2*16 < 2^-240)
AtanhInv3 == SeriesInv(3, FALSE, 77)
AtanhInv9 == SeriesInv(9, FALSE, 39)
AtanInv5 == SeriesInv(5, TRUE, 53)
AtanInv239 == SeriesInv(239, TRUE, 17)

\* a fixed-point integer with error < 2^10 units as a ball
FixBall(n, errbits) == BNorm([m |-> [neg |-> FALSE, mag |-> n, e |-> -FB], r |-> RPow2(errbits - FB)])

Ln2B == FixBall(Shl(AtanhInv3, 1), 10)                                    \* ln 2 = 2 atanh(1/3)
Ln10B == FixBall(Add(MulLimb(Shl(AtanhInv3, 1), 3), Shl(AtanhInv9, 1)), 12)  \* 3 ln 2 + 2 atanh(1/9)
PiB == FixBall(Sub(Shl(AtanInv5, 4), Shl(AtanInv239, 2)), 14)              \* 16 atan(1/5) - 4 atan(1/239)
PiHalfB == BScale2(PiB, -1)

\* ---- exp ---------------------------------------------------------------------------
\* nearest integer to x / ln 2 (a coarse computation is enough: any integer near it works)
InvLn2D == [neg |-> FALSE, mag |-> <<7572, 14506, 1>>, e |-> -30]         \* 1.442695040... to 2^-30
TopLimbs(d, n) == IF Len(d.mag) <= n THEN d
                  ELSE [neg |-> d.neg, mag |-> SubSeq(d.mag, Len(d.mag) - n + 1, Len(d.mag)), e |-> d.e + W * (Len(d.mag) - n)]
RoundToInt(d) == DRoundHalfAway(d)                 \* integer-valued dyadic
\* small integer-valued dyadic -> TLC integer (|value| < 2^30)
DToInt(d) == IF d.mag = <<>> THEN 0
             ELSE LET v == ToInt(IF d.e >= 0 THEN Shl(d.mag, d.e) ELSE Shr(d.mag, -d.e)) IN IF d.neg THEN -v ELSE v

TaylorN == 15
\* exp(u) for a ball u with |u| < 2^-8 : Horner, then the remainder 2|u|^(N+1)/(N+1)! (16! > 2^44)
ExpSmall(u) ==
  LET one == BInt(1)
      h == FoldLeft(LAMBDA p, n : BAdd(one, BDivInt(BMul(u, p), n)), one, [i \in 1..TaylorN |-> TaylorN + 1 - i])
      rem == (TaylorN + 1) * BAbsHiExp(u) - 44 + 1
  IN [h EXCEPT !.r = RAdd(@, RPow2(rem))]

\* exp of a ball; requires |x| < 2^20
BExp(x) ==
  LET kd == RoundToInt(DMul(TopLimbs(x.m, 3), InvLn2D))
      k == DToInt(kd)
      t == BSub(x, BMulD(Ln2B, kd))                       \* |t| <= 0.35 + tiny
      u == BScale2(t, -8)
      e0 == ExpSmall(u)
      e8 == FoldLeft(LAMBDA p, i : BSqr(p), e0, <<1, 2, 3, 4, 5, 6, 7, 8>>)
  IN BScale2(e8, k)

\* expm1 of a ball, with relative accuracy for tiny arguments
BExpm1(x) ==
  IF x.m.mag = <<>> /\ IsExactB(x) THEN BExact(DZero)
  ELSE IF BAbsHiExp(x) <= -8
  THEN LET one == BInt(1)
           \* x (1 + x/2 (1 + x/3 (... (1 + x/N))))
           h == FoldLeft(LAMBDA p, n : BAdd(one, BDivInt(BMul(x, p), n)), one, [i \in 1..(TaylorN - 1) |-> TaylorN + 1 - i])
           v == BMul(x, h)
           rem == (TaylorN + 1) * BAbsHiExp(x) - 44 + 1
       IN [v EXCEPT !.r = RAdd(@, RPow2(rem))]
  ELSE BSub(BExp(x), BInt(1))

\* ---- sin, cos ----------------------------------------------------------------------
InvPiHalfD == [neg |-> FALSE, mag |-> <<24795, 20860>>, e |-> -30]         \* 2/pi = 0.636619772... to 2^-30
SinCosN == 18
\* sin t and cos t for |t| <= 0.8 by the Taylor series in Horner form
SinCosSmall(t) ==
  LET one == BInt(1)
      T == BSqr(t)
      \* sin t = t (1 - T/(2*3) (1 - T/(4*5) (1 - ...)))
      hs == FoldLeft(LAMBDA p, k : BSub(one, BDivInt(BMul(T, p), (2 * k) * (2 * k + 1))), one,
                     [i \in 1..SinCosN |-> SinCosN + 1 - i])
      hc == FoldLeft(LAMBDA p, k : BSub(one, BDivInt(BMul(T, p), (2 * k - 1) * (2 * k))), one,
                     [i \in 1..SinCosN |-> SinCosN + 1 - i])
      \* remainders: |t|^39/39! (sin), |t|^38/38! (cos), with |t| < 2^k, k <= 0, and 38! > 2^148
      s == BMul(t, hs)
  IN [s |-> [s EXCEPT !.r = RAdd(@, RPow2(-148 + 39 * MinI(0, BAbsHiExp(t))))],
      c |-> [hc EXCEPT !.r = RAdd(@, RPow2(-148 + 38 * MinI(0, BAbsHiExp(t))))]]

\* sin and cos of a ball, |x| < 2^24
BSinCos(x) ==
  LET qd == RoundToInt(DMul(TopLimbs(x.m, 4), InvPiHalfD))
      q == DToInt(qd)
      t == BSub(x, BMulD(PiHalfB, qd))
      sc0 == SinCosSmall(t)
      \* the series remainder bound assumes |t| < 1; otherwise give up (huge radius => "undecided")
      sc == IF BAbsHiExp(t) <= 0 THEN sc0 ELSE [s |-> Hopeless, c |-> Hopeless]
      j == q % 4
  IN CASE j = 0 -> [s |-> sc.s, c |-> sc.c]
       [] j = 1 -> [s |-> sc.c, c |-> BNeg(sc.s)]
       [] j = 2 -> [s |-> BNeg(sc.s), c |-> BNeg(sc.c)]
       [] j = 3 -> [s |-> BNeg(sc.c), c |-> sc.s]
=============================================================================
