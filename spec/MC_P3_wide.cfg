SPECIFICATION Spec
CONSTANTS
  P = 3
  EMIN <- EMIN_WIDE
  EMAX <- EMAX_WIDE
  MODE = "wide"
  E0 <- E0_ZERO
  GAP = 1
  LOW = 1
  WBITS = 10
INVARIANT NoBad
POSTCONDITION Report
CHECK_DEADLOCK FALSE
