------------------------------- MODULE Machine -------------------------------
(***************************************************************************)
(* The library as a state machine.                                         *)
(*                                                                         *)
(*   regs : the TwoFloat values the program under test currently holds     *)
(*   memo : what the implementation has already answered in this group     *)
(*          (the implementation is modelled as an unknown but FIXED        *)
(*          function: the same operation on the same operand words must    *)
(*          return the same words, whatever the spelling (C10) and the     *)
(*          build configuration (C11))                                     *)
(*                                                                         *)
(* Call(op, A, r, meta) is the one machine action: an API call `op` on     *)
(* operands A returned r; a TwoFloat result is stored in register meta.d   *)
(* (compound assignment: d is the left operand's register).  CallFails     *)
(* gives the clauses of the given properties that the step violates; the   *)
(* exhaustive small-format models take r from the transcribed algorithms   *)
(* and require CallFails = {}, the trace specification takes r from the    *)
(* recorded execution and logs CallFails.                                  *)
(***************************************************************************)
EXTENDS ContractsText, AlgArith, TLC

VARIABLES regs, memo

NREGS == 8
MInit == /\ regs = [i \in 0..(NREGS - 1) |-> TF(Zero(FALSE), Zero(FALSE))]
         /\ memo = <<>>

\* ---- uniform keys -----------------------------------------------------------
UInt(neg, mag) == [k |-> "z", neg |-> neg, mag |-> mag, e |-> 0]
UStr(s) == [k |-> s, neg |-> FALSE, mag |-> <<>>, e |-> 0]
FlatArg(a) ==
  CASE a.t = "tf" -> <<a.x.hi, a.x.lo>>
    [] a.t = "f" \/ a.t = "f32" -> <<a.w>>
    [] a.t = "i" -> <<UStr(a.ty), UInt(a.neg, a.mag)>>
    [] a.t = "s" -> <<UStr(a.v)>>
    [] a.t = "sl" -> [i \in 1..Len(a.v) |-> UStr(a.v[i])]
    [] a.t = "fl" -> a.v
    [] a.t = "tl" -> FoldLeft(LAMBDA acc, x : acc \o <<x.hi, x.lo>>, <<>>, a.v)
FlatArgs(A) == FoldLeft(LAMBDA acc, a : acc \o FlatArg(a), <<>>, A)
SigOf(A) == [i \in 1..Len(A) |-> A[i].t]
KeyOf(op, A) == <<op, SigOf(A), FlatArgs(A)>>
ResKey(r) ==
  CASE r.t = "tf" -> <<r.x.hi, r.x.lo>>
    [] r.t = "tf2" -> <<r.x.hi, r.x.lo, r.y.hi, r.y.lo>>
    [] r.t = "f" \/ r.t = "f32" -> <<r.w>>
    [] r.t = "ff" -> <<r.w, r.w2>>
    [] r.t = "b" -> <<[k |-> "b", neg |-> r.v, mag |-> <<>>, e |-> 0]>>
    [] r.t = "ord" -> <<[k |-> "o", neg |-> FALSE, mag |-> <<>>, e |-> r.v]>>
    [] r.t = "i" -> <<UInt(r.neg, r.mag)>>
    [] r.t = "str" \/ r.t = "fmt" \/ r.t = "ser" -> [i \in 1..Len(r.c) |-> UStr(r.c[i])]
    [] OTHER -> <<UStr(r.t)>>

TFArg(x) == [t |-> "tf", x |-> x]
FArg(w) == [t |-> "f", w |-> w]
Has(op, A) == KeyOf(op, A) \in DOMAIN memo
Got(op, A) == memo[KeyOf(op, A)].res
GotTF(op, A) == LET g == Got(op, A) IN TF(g[1], g[2])

\* ---- C10 / C11: the implementation is a function -----------------------------
MemoFails(op, A, r, meta) ==
  LET key == KeyOf(op, A) IN
  IF key \in DOMAIN memo /\ memo[key].res # ResKey(r)
  THEN (IF memo[key].cfg # meta.cfg THEN Fail("C11", "config_dependent_result")
        ELSE Fail("C10", "spelling_dependent_result")
             \* C03: "summing an iterator accumulates with exactly these operations" (sum vs the explicit fold)
             \cup (IF op = "sum" THEN Fail("C03", "sum_is_not_the_fold") ELSE {}))
  ELSE {}

\* ---- relations between different operations (bit-for-bit identities) ---------
\* the two results differ only in the sign bit of words that are zero
SameUpToZeroSign(v, w) == v = w \/ (IsZeroW(v) /\ IsZeroW(w))
ZeroSignOnly(x, y) == SameUpToZeroSign(x.hi, y.hi) /\ SameUpToZeroSign(x.lo, y.lo)
RelEq(p, c, x, y) == IF x = y THEN {} ELSE
                     IF ZeroSignOnly(x, y) THEN Fail(p, c \o ":zero_sign_only") ELSE Fail(p, c)
\* expected TwoFloat `want` (computed from memo entries) against the result r
RelTF(p, c, r, want) == IF r.t = "tf" THEN RelEq(p, c, r.x, want) ELSE Fail(p, c)

IntArg(neg, mag) == [t |-> "i", ty |-> "i32", neg |-> neg, mag |-> mag]
RelationFails(op, A, r) ==
  IF r.t = "tf2" THEN
     (IF op = "sin_cos" THEN
        (IF Has("sin", <<A[1]>>) THEN RelEq("C16", "sin_cos_is_sin", r.x, GotTF("sin", <<A[1]>>)) ELSE {})
        \cup (IF Has("cos", <<A[1]>>) THEN RelEq("C16", "sin_cos_is_cos", r.y, GotTF("cos", <<A[1]>>)) ELSE {})
      ELSE {})
  ELSE IF r.t # "tf" THEN {} ELSE
  CASE op = "log" ->
         (IF Has("ln", <<A[1]>>) /\ Has("ln", <<A[2]>>)
          THEN LET q == <<TFArg(GotTF("ln", <<A[1]>>)), TFArg(GotTF("ln", <<A[2]>>))>> IN
               (IF Has("div", q) THEN RelEq("C15", "log_is_ln_quotient", r.x, GotTF("div", q)) ELSE {})
          ELSE {})
    [] op = "log10" ->
         (IF Has("ln", <<A[1]>>) /\ Has("const", <<[t |-> "s", v |-> "LN_10"]>>)
          THEN LET q == <<TFArg(GotTF("ln", <<A[1]>>)), TFArg(GotTF("const", <<[t |-> "s", v |-> "LN_10"]>>))>> IN
               (IF Has("div", q) THEN RelEq("C15", "log10_is_ln_over_ln10", r.x, GotTF("div", q)) ELSE {})
          ELSE {})
    [] op = "powi" /\ A[2].neg /\ A[2].mag # <<>> ->
         \* powi(x, -n) == powi(x, n).recip()
         (IF Has("powi", <<A[1], IntArg(FALSE, A[2].mag)>>)
          THEN LET p == <<TFArg(GotTF("powi", <<A[1], IntArg(FALSE, A[2].mag)>>))>> IN
               (IF Has("recip", p) THEN RelEq("C13", "powi_negative_is_recip", r.x, GotTF("recip", p)) ELSE {})
          ELSE {})
    [] op = "add" /\ A[1].t = "tf" /\ A[2].t = "tf" ->
         (IF Has("add", <<A[2], A[1]>>) THEN RelEq("C10", "add_commutes", r.x, GotTF("add", <<A[2], A[1]>>)) ELSE {})
         \cup (IF Has("sub", <<A[1], TFArg(NegTF(A[2].x))>>)
               THEN RelEq("C10", "sub_is_add_neg", r.x, GotTF("sub", <<A[1], TFArg(NegTF(A[2].x))>>)) ELSE {})
    [] op = "add" /\ A[1].t # A[2].t ->
         (IF Has("add", <<A[2], A[1]>>) THEN RelEq("C10", "add_f64_commutes", r.x, GotTF("add", <<A[2], A[1]>>)) ELSE {})
    [] op = "mul" /\ A[1].t # A[2].t ->
         (IF Has("mul", <<A[2], A[1]>>) THEN RelEq("C10", "mul_f64_commutes", r.x, GotTF("mul", <<A[2], A[1]>>)) ELSE {})
    [] op = "sub" /\ A[1].t = "tf" /\ A[2].t = "tf" ->
         (IF Has("add", <<A[1], TFArg(NegTF(A[2].x))>>)
          THEN RelEq("C10", "sub_is_add_neg", r.x, GotTF("add", <<A[1], TFArg(NegTF(A[2].x))>>)) ELSE {})
         \cup (IF Has("sub", <<A[2], A[1]>>)
               THEN RelEq("C10", "sub_antisymmetric", r.x, NegTF(GotTF("sub", <<A[2], A[1]>>))) ELSE {})
    [] op = "mul" /\ A[1].t = "tf" /\ A[2].t = "tf" ->
         (IF Has("mul", <<TFArg(NegTF(A[1].x)), A[2]>>)
          THEN RelEq("C10", "neg_mul", r.x, NegTF(GotTF("mul", <<TFArg(NegTF(A[1].x)), A[2]>>))) ELSE {})
    [] op = "mul_add" ->
         (IF Has("mul", <<A[1], A[2]>>)
          THEN LET p == TFArg(GotTF("mul", <<A[1], A[2]>>)) IN
               (IF Has("add", <<p, A[3]>>) THEN RelEq("C10", "mul_add_is_mul_then_add", r.x, GotTF("add", <<p, A[3]>>)) ELSE {})
          ELSE {})
    [] op = "abs_sub" ->
         (IF Has("sub", <<A[1], A[2]>>)
          THEN LET p == TFArg(GotTF("sub", <<A[1], A[2]>>)) IN
               (IF Has("abs", <<p>>) THEN RelEq("C10", "abs_sub_is_abs_of_sub", r.x, GotTF("abs", <<p>>)) ELSE {})
          ELSE {})
    [] op = "recip" ->
         (IF Has("div", <<FArg(RN(DOne)), A[1]>>)
          THEN RelEq("C05", "recip_is_one_div", r.x, GotTF("div", <<FArg(RN(DOne)), A[1]>>)) ELSE {})
    [] OTHER -> {}

\* ---- IEEE self-test events (validate this specification's IEEE module and the encoder
\*      against host binary64 arithmetic; they decide no property) --------------------------
IeeeFails(op, A) ==
  LET w(i) == A[i].w IN
  CASE op = "h_add" -> Chk(FAdd(w(1), w(2)) = w(3), "tool", "ieee_add")
    [] op = "h_sub" -> Chk(FSub(w(1), w(2)) = w(3), "tool", "ieee_sub")
    [] op = "h_mul" -> Chk(FMul(w(1), w(2)) = w(3), "tool", "ieee_mul")
    [] op = "h_div" -> Chk(FDiv(w(1), w(2)) = w(3), "tool", "ieee_div")
    [] op = "h_sqrt" -> Chk(FSqrt(w(1)) = w(2), "tool", "ieee_sqrt")
    [] op = "h_fma" -> Chk(FMA(w(1), w(2), w(3)) = w(4), "tool", "ieee_fma")
    [] op = "h_round" -> Chk(FFloor(w(1)) = w(2), "tool", "ieee_floor") \cup Chk(FCeil(w(1)) = w(3), "tool", "ieee_ceil")
                         \cup Chk(FRound(w(1)) = w(4), "tool", "ieee_round") \cup Chk(FTrunc(w(1)) = w(5), "tool", "ieee_trunc")
    [] op = "h_f32" -> Chk(CastF32(w(1)) = w(2), "tool", "ieee_f32")
    [] OTHER -> {<<"tool", "unknown_ieee_op">>}

\* ---- the contract of one call ---------------------------------------------------
FamilyFails(fam, op, A, r) ==
  CASE fam = "arith" ->
         ArithFails(op, A, r, IF op = "rem_euclid" /\ Has("div_euclid", A) THEN [has |-> TRUE, x |-> GotTF("div_euclid", A)]
                                     ELSE [has |-> FALSE, x |-> TF(Zero(FALSE), Zero(FALSE))])
    [] fam = "load" \/ fam = "base" -> BaseFails(op, A, r)
    [] fam = "conv" -> ConvFails(op, A, r)
    [] fam = "misc" \/ fam = "pow" \/ fam = "const" \/ fam = "elem" -> ElemFails(fam, op, A, r)
    [] fam = "text" -> TextFails(op, A, r)
    [] fam = "serde" -> SerdeFails(op, A, r)
    [] fam = "ieee" -> IeeeFails(op, A)
    [] OTHER -> {<<"tool", "unknown_family">>}

\* C01 on its own (wider) domain: whatever the family contract says or skips, a TwoFloat produced from valid
\* operands whose high words are 0 or in [2^-1000, 2^1000] (f64 operands: finite, same range) is normalised.
\* The error-free product / quotient constructors are excluded below the 2^-960 product range (as stated).
C01Operand(a) == CASE a.t = "tf" -> InDom(a.x, -1000, 1000)
                   [] a.t = "f" -> WInRange(a.w, -1000, 1000)
                   [] a.t = "tl" -> \A i \in 1..Len(a.v) : InDom(a.v[i], -1000, 1000)
                   [] a.t = "fl" -> \A i \in 1..Len(a.v) : WInRange(a.v[i], -1000, 1000)
                   [] OTHER -> TRUE
C01Generic(fam, op, A, r) ==
  IF fam \in {"ieee", "load", "text", "serde"} \/ ~(r.t = "tf" \/ r.t = "tf2") THEN {}
  ELSE IF ~(\A i \in 1..Len(A) : C01Operand(A[i])) THEN {}
  ELSE IF op \in {"new_mul", "new_div"} THEN {}          \* their own contracts carry the restricted C01 clause
  ELSE C01Of(r)

CallFails(fam, op, A, r, meta) ==
  FamilyFails(fam, op, A, r) \cup C01Generic(fam, op, A, r)
  \cup (IF fam = "ieee" THEN {} ELSE MemoFails(op, A, r, meta) \cup RelationFails(op, A, r))

\* ---- drift: does the transcription (A) still reproduce the implementation's bits? --------------
\* Re-executes the event through AlgArith at binary64.  A mismatch is reported as MODEL-DRIFT; it is
\* never a violation (a refactoring that keeps the properties may change bits) but it tells that the
\* exhaustive small-format results no longer speak about this code, and it steers extra sampling.
AlgOf(op, A) ==
  LET t1 == A[1].t   t2 == IF Len(A) >= 2 THEN A[2].t ELSE "-" IN
  CASE op = "add" /\ t1 = "tf" /\ t2 = "tf" -> AAddTT(A[1].x, A[2].x)
    [] op = "add" /\ t1 = "tf" /\ t2 = "f" -> AAddTF(A[1].x, A[2].w)
    [] op = "add" /\ t1 = "f" /\ t2 = "tf" -> AAddFT(A[1].w, A[2].x)
    [] op = "sub" /\ t1 = "tf" /\ t2 = "tf" -> ASubTT(A[1].x, A[2].x)
    [] op = "sub" /\ t1 = "tf" /\ t2 = "f" -> ASubTF(A[1].x, A[2].w)
    [] op = "sub" /\ t1 = "f" /\ t2 = "tf" -> ASubFT(A[1].w, A[2].x)
    [] op = "mul" /\ t1 = "tf" /\ t2 = "tf" -> AMulTT(A[1].x, A[2].x)
    [] op = "mul" /\ t1 = "tf" /\ t2 = "f" -> AMulTF(A[1].x, A[2].w)
    [] op = "mul" /\ t1 = "f" /\ t2 = "tf" -> AMulFT(A[1].w, A[2].x)
    [] op = "div" /\ t1 = "tf" /\ t2 = "tf" -> ADivTT(A[1].x, A[2].x)
    [] op = "div" /\ t1 = "tf" /\ t2 = "f" -> ADivTF(A[1].x, A[2].w)
    [] op = "div" /\ t1 = "f" /\ t2 = "tf" -> ADivFT(A[1].w, A[2].x)
    [] op = "rem" /\ t1 = "tf" /\ t2 = "tf" -> ARemTT(A[1].x, A[2].x)
    [] op = "rem" /\ t1 = "tf" /\ t2 = "f" -> ARemTF(A[1].x, A[2].w)
    [] op = "rem" /\ t1 = "f" /\ t2 = "tf" -> ARemFT(A[1].w, A[2].x)
    [] op = "recip" -> ARecip(A[1].x)
    [] op = "div_euclid" -> ADivEuclid(A[1].x, A[2].x)
    [] op = "rem_euclid" -> ARemEuclid(A[1].x, A[2].x)
    [] op = "sqrt" -> ASqrt(A[1].x)
    [] op = "hypot" -> AHypot(A[1].x, A[2].x)
    [] op = "min" -> AMin(A[1].x, A[2].x)
    [] op = "max" -> AMax(A[1].x, A[2].x)
    [] op = "signum" -> ASignum(A[1].x)
    [] op = "copysign" -> ACopySign(A[1].x, A[2].x)
    [] op = "to_degrees" -> AMulTT(A[1].x, DegPerRad)
    [] op = "to_radians" -> AMulTT(A[1].x, RadPerDeg)
    [] op = "neg" -> ANeg(A[1].x)
    [] op = "abs" -> AAbs(A[1].x)
    [] op = "new_add" -> ANewAdd(A[1].w, A[2].w)
    [] op = "new_sub" -> ANewSub(A[1].w, A[2].w)
    [] op = "new_mul" -> ANewMul(A[1].w, A[2].w)
    [] op = "new_div" -> ANewDiv(A[1].w, A[2].w)
    [] op = "floor" -> AFloor(A[1].x)
    [] op = "ceil" -> ACeil(A[1].x)
    [] op = "trunc" -> ATrunc(A[1].x)
    [] op = "round" -> ARound(A[1].x)
    [] op = "fract" -> AFract(A[1].x)
DriftOps == {"add", "sub", "mul", "div", "rem", "recip", "neg", "abs", "new_add", "new_sub", "new_mul", "new_div",
             "floor", "ceil", "trunc", "round", "fract", "div_euclid", "rem_euclid", "sqrt", "hypot", "min", "max",
             "signum", "copysign", "to_degrees", "to_radians"}
\* powi has an integer operand: handled separately (n = 0, 1, -1 are special-cased in the source)
PowiDrift(op, A, r) ==
  /\ op = "powi" /\ r.t = "tf" /\ A[2].mag # <<>> /\ A[2].mag # <<1>>
  /\ LET p == APowiLoop(A[1].x, A[2].mag) IN (IF A[2].neg THEN ARecip(p) ELSE p) # r.x
\* TRUE iff the event is covered by the transcription and the words differ
Drifted(op, A, r) ==
  /\ op \in DriftOps /\ r.t = "tf"
  /\ \A i \in 1..Len(A) : A[i].t \in {"tf", "f"}
  /\ AlgOf(op, A) # r.x
DriftNoOverlap(op, A, r) == op = "no_overlap" /\ r.t = "b" /\ ANoOverlap(A[1].w, A[2].w) # r.v

\* ---- actions --------------------------------------------------------------------
Group == /\ memo' = <<>>
         /\ UNCHANGED regs

Call(fam, op, A, r, meta) ==
  /\ regs' = IF meta.d >= 0 /\ (r.t = "tf" \/ r.t = "tf2") THEN [regs EXCEPT ![meta.d] = r.x] ELSE regs
  /\ memo' = IF fam = "ieee" THEN memo
             ELSE LET key == KeyOf(op, A) IN
                  IF key \in DOMAIN memo THEN memo
                  ELSE (key :> [res |-> ResKey(r), cfg |-> meta.cfg]) @@ memo
=============================================================================
