SPECIFICATION Spec
CONSTANTS
  P = 5
  EMIN <- EMIN_WIDE
  EMAX <- EMAX_WIDE
  MODE = "atanflow"
  E0 <- E0_LOW
  GAP = 4
  LOW = 9
  WBITS = 8
INVARIANT NoBad
POSTCONDITION Report
CHECK_DEADLOCK FALSE
