-------------------------------- MODULE Trace --------------------------------
(***************************************************************************)
(* Trace specification: validates a recorded execution of the real crate   *)
(* (ndjson, one event per public API call, written by /verif/harness)      *)
(* against the machine of Machine.tla instantiated at binary64.            *)
(*                                                                         *)
(* Shape: position l in the trace; one disjunct of TraceNext per event     *)
(* family; each binds the logged fields and takes the corresponding        *)
(* machine action.  Unlike a textbook trace spec a violated contract does  *)
(* not block: the event is consumed, the logged result is stored so that   *)
(* the rest of the chain is still examined, and the deviation is appended  *)
(* to a TLC register (POSTCONDITION cannot read variables).  Acceptance =  *)
(* every event consumed; the deviation list decides the verdict.           *)
(***************************************************************************)
EXTENDS Machine, Json, IOUtils, TLC, TLCExt

\* binary64 (negative constants cannot be written in a .cfg file)
F64_P == 53
F64_EMIN == -1022
F64_EMAX == 1023

Rec == ndJsonDeserialize(IOEnv.TRACE)
OutFile == IOEnv.OUT
DriftOn == "DRIFT" \in DOMAIN IOEnv /\ IOEnv.DRIFT = "1"
\* C11 corpus: elementary-function events are only compared across build configurations (determinism
\* memo and relations); their accuracy contracts are the business of C13-C18
MemoOnly == "MEMO_ONLY" \in DOMAIN IOEnv /\ IOEnv.MEMO_ONLY = "1"
\* C01_ONLY=1: for the mathematical functions evaluate only the normalisation clause (C01) and the
\* determinism memo, not the accuracy contracts (their own properties validate those; this makes
\* long programs that feed function results back into other operations cheap to validate)
C01Only == "C01_ONLY" \in DOMAIN IOEnv /\ IOEnv.C01_ONLY = "1"

VARIABLE l
tvars == <<l, regs, memo>>

\* ---- decoding of logged values ------------------------------------------
Wd(j) == [k |-> j.k, neg |-> j.s = 1, mag |-> j.m, e |-> j.e]
ArgOf(j) ==
  CASE j.t = "r" -> [t |-> "tf", x |-> regs[j.i]]
    [] j.t = "f" -> [t |-> "f", w |-> Wd(j.w)]
    [] j.t = "f32" -> [t |-> "f32", w |-> Wd(j.w)]
    [] j.t = "i" -> [t |-> "i", ty |-> j.ty, neg |-> j.v.s = 1, mag |-> j.v.m]
    [] j.t = "s" -> [t |-> "s", v |-> j.v]
    [] j.t = "sl" -> [t |-> "sl", v |-> j.v]
    [] j.t = "fl" -> [t |-> "fl", v |-> [i \in 1..Len(j.v) |-> Wd(j.v[i])]]
    [] j.t = "rl" -> [t |-> "tl", v |-> [i \in 1..Len(j.v) |-> regs[j.v[i]]]]
ArgsOf(ev) == [i \in 1..Len(ev.a) |-> ArgOf(ev.a[i])]
ResOf(j) ==
  CASE j.t = "tf" -> [t |-> "tf", x |-> TF(Wd(j.hi), Wd(j.lo))]
    [] j.t = "tf2" -> [t |-> "tf2", x |-> TF(Wd(j.hi), Wd(j.lo)), y |-> TF(Wd(j.hi2), Wd(j.lo2))]
    [] j.t = "f" -> [t |-> "f", w |-> Wd(j.w)]
    [] j.t = "f32" -> [t |-> "f32", w |-> Wd(j.w)]
    [] j.t = "ff" -> [t |-> "ff", w |-> Wd(j.w), w2 |-> Wd(j.w2)]
    [] j.t = "b" -> [t |-> "b", v |-> j.v]
    [] j.t = "ord" -> [t |-> "ord", v |-> j.v]
    [] j.t = "i" -> [t |-> "i", neg |-> j.v.s = 1, mag |-> j.v.m]
    [] j.t = "str" -> [t |-> "str", c |-> j.c]
    [] j.t = "fmt" -> [t |-> "fmt", c |-> j.c, p1ok |-> j.p1.ok, p1 |-> IF j.p1.ok THEN Wd(j.p1.w) ELSE NaN,
                       p2ok |-> j.p2.ok, p2 |-> IF j.p2.ok THEN Wd(j.p2.w) ELSE NaN, ref_hi |-> j.ref_hi, ref_lo |-> j.ref_lo]
    [] j.t = "ser" -> [t |-> "ser", c |-> j.c, keys |-> j.keys, vals |-> [i \in 1..Len(j.vals) |-> Wd(j.vals[i])]]
    [] OTHER -> [t |-> j.t]

\* ---- bookkeeping in TLC registers (run with -workers 1) --------------------
\* register 1: sequence of deviations; register 2: [checked, skipped, panics] counters;
\* register 3: number of events consumed; register 4: positions of out-of-domain (skipped) events
Note(ev, fails) ==
  LET real == { f \in fails : f[1] # "skip" /\ f[1] # "undecided" }
      und == { f \in fails : f[1] = "undecided" }
      devs == { [l |-> l, seq |-> ev.seq, op |-> ev.op, sp |-> ev.sp, cfg |-> ev.cfg,
                 prop |-> f[1], clause |-> f[2]] : f \in real }
      st == TLCGet(2)
  IN /\ (IF devs = {} THEN TRUE ELSE TLCSet(1, TLCGet(1) \o SetToSeq(devs)))
     /\ TLCSet(2, [checked |-> st.checked + (IF Skip \in fails THEN 0 ELSE 1),
                   skipped |-> st.skipped + (IF Skip \in fails THEN 1 ELSE 0),
                   nontrivial |-> st.nontrivial + (IF Skip \notin fails /\ ev.fam # "load" THEN 1 ELSE 0),
                   undecided |-> st.undecided + (IF und = {} THEN 0 ELSE 1)])
     /\ (IF und = {} THEN TRUE ELSE TLCSet(5, Append(TLCGet(5), [l |-> l, op |-> ev.op, what |-> (CHOOSE f \in und : TRUE)[2]])))
     /\ (IF Skip \in fails THEN TLCSet(4, Append(TLCGet(4), l)) ELSE TRUE)
     /\ TLCSet(3, l)

IsFam(f) == l <= Len(Rec) /\ Rec[l].fam = f /\ l' = l + 1

\* ---- one disjunct per event family ----------------------------------------
TrGroup == /\ IsFam("ctl")
           /\ Group
           /\ TLCSet(3, l)

TrCall == /\ l <= Len(Rec) /\ Rec[l].fam # "ctl" /\ l' = l + 1
          /\ LET ev == Rec[l]
                 A == ArgsOf(ev)
                 r == ResOf(ev.res)
                 meta == [sp |-> ev.sp, cfg |-> ev.cfg, d |-> ev.d]
                 fails == IF MemoOnly /\ ev.fam \in {"elem", "pow", "misc"} /\ ev.op # "fma"
                          THEN MemoFails(ev.op, A, r, meta) \cup RelationFails(ev.op, A, r)
                          ELSE IF C01Only /\ ev.fam \in {"elem", "pow", "misc"} /\ ev.op # "fma"
                          THEN C01Generic(ev.fam, ev.op, A, r) \cup MemoFails(ev.op, A, r, meta)
                          ELSE CallFails(ev.fam, ev.op, A, r, meta)
             IN /\ Note(ev, fails)
                /\ (IF DriftOn /\ (Drifted(ev.op, A, r) \/ DriftNoOverlap(ev.op, A, r) \/ PowiDrift(ev.op, A, r))
                    THEN TLCSet(6, Append(TLCGet(6), [l |-> l, op |-> ev.op, sp |-> ev.sp])) ELSE TRUE)
                /\ Call(ev.fam, ev.op, A, r, meta)

TraceInit == /\ l = 1
             /\ MInit
             /\ TLCSet(1, <<>>)
             /\ TLCSet(2, [checked |-> 0, skipped |-> 0, nontrivial |-> 0, undecided |-> 0])
             /\ TLCSet(3, 0)
             /\ TLCSet(4, <<>>)
             /\ TLCSet(5, <<>>)
             /\ TLCSet(6, <<>>)
TraceNext == TrGroup \/ TrCall
TraceSpec == TraceInit /\ [][TraceNext]_tvars

\* every register written by an in-domain action is normalised (C01 as a state invariant is
\* evaluated through the C01 clause of each action; this invariant is the type-level part)
TraceTypeOK == /\ l \in 1..(Len(Rec) + 1)
               /\ DOMAIN regs = 0..7

\* ---- acceptance -----------------------------------------------------------
TraceAccepted ==
  LET consumed == TLCGet(3)
      res == [events |-> Len(Rec), consumed |-> consumed, devs |-> TLCGet(1), stats |-> TLCGet(2),
              skipped_lines |-> TLCGet(4), undecided |-> TLCGet(5), drift |-> TLCGet(6)]
  IN /\ JsonSerialize(OutFile, res)
     /\ (consumed = Len(Rec) \/ PrintT(<<"TRACE NOT CONSUMED", consumed, Len(Rec)>>))
     /\ consumed = Len(Rec)
=============================================================================
