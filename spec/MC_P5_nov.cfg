SPECIFICATION Spec
CONSTANTS
  P = 5
  EMIN <- EMIN_NARROW
  EMAX <- EMAX_NARROW
  MODE = "nov"
  E0 <- E0_ZERO
  GAP = 1
  LOW = 1
  WBITS = 8
INVARIANT NoBad
POSTCONDITION Report
CHECK_DEADLOCK FALSE
