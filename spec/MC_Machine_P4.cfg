SPECIFICATION Spec
CONSTANTS
  P = 4
  EMIN <- EMIN_WIDE
  EMAX <- EMAX_WIDE
  WINLO <- WIN_LO
  WINHI <- WIN_HI
INVARIANT NormalisedInv
INVARIANT NoBad
CHECK_DEADLOCK FALSE
