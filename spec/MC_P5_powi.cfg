SPECIFICATION Spec
CONSTANTS
  P = 5
  EMIN <- EMIN_WIDE
  EMAX <- EMAX_WIDE
  MODE = "powi"
  E0 <- E0_M4
  GAP = 0
  LOW = 14
  WBITS = 8
INVARIANT NoBad
POSTCONDITION Report
CHECK_DEADLOCK FALSE
