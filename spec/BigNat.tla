------------------------------- MODULE BigNat -------------------------------
(***************************************************************************)
(* Natural numbers of arbitrary size as little-endian sequences of limbs.  *)
(* TLC's Int is a 32-bit Java int that raises an error on overflow, so a   *)
(* 53-bit significand (let alone a 2000-bit aligned sum) cannot be a TLC   *)
(* integer.  Limb width W = 15: a limb product plus carries stays < 2^31.  *)
(* Canonical form: no most-significant zero limb; zero is <<>>.            *)
(* Everything here is plain TLA+ evaluated by stock TLC (FoldLeft comes    *)
(* from the CommunityModules).                                             *)
(***************************************************************************)
EXTENDS Integers, Sequences, SequencesExt

W == 15
B == 32768

MaxI(a, b) == IF a >= b THEN a ELSE b
MinI(a, b) == IF a <= b THEN a ELSE b

\* 2^n for 0 <= n <= 30 (table lookup: TLC's ^ loops)
P2Tab == <<1, 2, 4, 8, 16, 32, 64, 128, 256, 512, 1024, 2048, 4096, 8192, 16384, 32768,
           65536, 131072, 262144, 524288, 1048576, 2097152, 4194304, 8388608, 16777216,
           33554432, 67108864, 134217728, 268435456, 536870912, 1073741824>>
P2(n) == P2Tab[n + 1]

Limb(a, i) == IF i >= 1 /\ i <= Len(a) THEN a[i] ELSE 0

RECURSIVE Trim(_)
Trim(a) == IF a = <<>> THEN a
           ELSE IF a[Len(a)] = 0 THEN Trim(SubSeq(a, 1, Len(a) - 1)) ELSE a

Zeros(n) == [i \in 1..n |-> 0]
ShiftLimbs(a, n) == IF a = <<>> \/ n = 0 THEN a ELSE Zeros(n) \o a

\* small non-negative TLC integer -> BigNat
RECURSIVE FromInt(_)
FromInt(n) == IF n = 0 THEN <<>> ELSE <<n % B>> \o FromInt(n \div B)

\* BigNat -> TLC integer, only for values < 2^30 (at most two limbs)
ToInt(a) == IF a = <<>> THEN 0 ELSE IF Len(a) = 1 THEN a[1] ELSE a[1] + B * a[2]
FitsInt(a) == Len(a) <= 2

IsZero(a) == a = <<>>
IsOdd(a) == a # <<>> /\ a[1] % 2 = 1

AddStep(acc, t) == LET v == t + acc.c IN [out |-> Append(acc.out, v % B), c |-> v \div B]
Add(a, b) ==
  IF a = <<>> THEN b ELSE IF b = <<>> THEN a ELSE
  LET n == MaxI(Len(a), Len(b))
      r == FoldLeft(AddStep, [out |-> <<>>, c |-> 0], [i \in 1..n |-> Limb(a, i) + Limb(b, i)])
  IN IF r.c = 0 THEN r.out ELSE Append(r.out, r.c)

\* a - b, requires a >= b
SubStep(acc, t) == LET v == t - acc.c IN
                   IF v >= 0 THEN [out |-> Append(acc.out, v), c |-> 0]
                             ELSE [out |-> Append(acc.out, v + B), c |-> 1]
Sub(a, b) ==
  IF b = <<>> THEN a ELSE
  LET r == FoldLeft(SubStep, [out |-> <<>>, c |-> 0], [i \in 1..Len(a) |-> a[i] - Limb(b, i)])
  IN Trim(r.out)

\* three-way comparison: -1, 0, 1
RECURSIVE CmpFrom(_, _, _)
CmpFrom(a, b, i) == IF i = 0 THEN 0
                    ELSE IF a[i] > b[i] THEN 1 ELSE IF a[i] < b[i] THEN -1 ELSE CmpFrom(a, b, i - 1)
Cmp(a, b) == IF Len(a) > Len(b) THEN 1 ELSE IF Len(a) < Len(b) THEN -1 ELSE CmpFrom(a, b, Len(a))

\* a * d for a single limb 0 <= d < B
MulLimb(a, d) ==
  IF d = 0 \/ a = <<>> THEN <<>> ELSE IF d = 1 THEN a ELSE
  LET r == FoldLeft(LAMBDA acc, t : LET v == t * d + acc.c
                                    IN [out |-> Append(acc.out, v % B), c |-> v \div B],
                    [out |-> <<>>, c |-> 0], a)
  IN IF r.c = 0 THEN r.out ELSE Append(r.out, r.c)

Mul(a, b) ==
  IF a = <<>> \/ b = <<>> THEN <<>> ELSE
  IF Len(a) < Len(b)
  THEN FoldLeft(LAMBDA acc, j : Add(acc, ShiftLimbs(MulLimb(b, a[j]), j - 1)), <<>>, [j \in 1..Len(a) |-> j])
  ELSE FoldLeft(LAMBDA acc, j : Add(acc, ShiftLimbs(MulLimb(a, b[j]), j - 1)), <<>>, [j \in 1..Len(b) |-> j])

Sqr(a) == Mul(a, a)

\* a * 2^s
Shl(a, s) == IF a = <<>> \/ s = 0 THEN a ELSE ShiftLimbs(MulLimb(a, P2(s % W)), s \div W)

\* floor(a / 2^k)
Shr(m, k) ==
  IF k = 0 THEN m ELSE
  LET q == k \div W
      r == k % W
      n == Len(m) - q
  IN IF n <= 0 THEN <<>>
     ELSE IF r = 0 THEN SubSeq(m, q + 1, Len(m))
     ELSE Trim([i \in 1..n |-> (m[i + q] \div P2(r)) + (Limb(m, i + q + 1) % P2(r)) * P2(W - r)])

BitLenLimb(x) == IF x >= 256
                 THEN (IF x >= 4096 THEN (IF x >= 16384 THEN 15 ELSE IF x >= 8192 THEN 14 ELSE 13)
                       ELSE IF x >= 1024 THEN (IF x >= 2048 THEN 12 ELSE 11)
                       ELSE IF x >= 512 THEN 10 ELSE 9)
                 ELSE (IF x >= 16 THEN (IF x >= 64 THEN (IF x >= 128 THEN 8 ELSE 7) ELSE IF x >= 32 THEN 6 ELSE 5)
                       ELSE IF x >= 4 THEN (IF x >= 8 THEN 4 ELSE 3)
                       ELSE IF x >= 2 THEN 2 ELSE IF x >= 1 THEN 1 ELSE 0)
BitLen(m) == IF m = <<>> THEN 0 ELSE W * (Len(m) - 1) + BitLenLimb(m[Len(m)])

\* bit i (0-based) of a
TestBit(a, i) == (Limb(a, i \div W + 1) \div P2(i % W)) % 2 = 1

\* are the k low bits of a all zero?
LowZero(a, k) ==
  k <= 0 \/ a = <<>> \/
  ( /\ \A i \in 1..MinI(k \div W, Len(a)) : a[i] = 0
    /\ Limb(a, k \div W + 1) % P2(k % W) = 0 )

\* number of trailing zero bits (a # 0)
RECURSIVE TzLimb(_)
TzLimb(x) == IF x % 2 = 1 THEN 0 ELSE 1 + TzLimb(x \div 2)
RECURSIVE TzFrom(_, _)
TzFrom(a, i) == IF a[i] # 0 THEN W * (i - 1) + TzLimb(a[i]) ELSE TzFrom(a, i + 1)
Tz(a) == TzFrom(a, 1)

\* the low k bits of a
LowBits(a, k) ==
  IF k <= 0 THEN <<>> ELSE
  LET q == k \div W   r == k % W IN
  IF Len(a) <= q THEN a
  ELSE Trim(SubSeq(a, 1, q) \o (IF r = 0 THEN <<>> ELSE <<a[q + 1] % P2(r)>>))

\* 2^k as a BigNat
Pow2N(k) == ShiftLimbs(<<P2(k % W)>>, k \div W)

\* division by a single limb 1 <= d < B: [q, r]
DivLimb(a, d) ==
  LET r == FoldLeft(LAMBDA acc, t : LET v == acc.r * B + t
                                    IN [q |-> <<v \div d>> \o acc.q, r |-> v % d],
                    [q |-> <<>>, r |-> 0], Reverse(a))
  IN [q |-> Trim(r.q), r |-> r.r]

\* floor division by binary long division: [q, r] with a = q*b + r, 0 <= r < b  (b # 0).
\* Iterative (FoldLeft) so that the accumulators are values, not chains of lazy thunks; the top
\* BitLen(b)-1 bits of a are taken at once since they cannot produce a quotient bit.
DivStep(a, b, acc, i) ==
  LET r2 == IF TestBit(a, i) THEN Add(Shl(acc.r, 1), <<1>>) ELSE Shl(acc.r, 1) IN
  IF Cmp(r2, b) >= 0 THEN [q |-> Add(Shl(acc.q, 1), <<1>>), r |-> Sub(r2, b)]
                     ELSE [q |-> Shl(acc.q, 1), r |-> r2]
DivMod(a, b) ==
  IF Cmp(a, b) < 0 THEN [q |-> <<>>, r |-> a]
  ELSE IF Len(b) = 1 THEN LET d == DivLimb(a, b[1]) IN [q |-> d.q, r |-> FromInt(d.r)]
  ELSE LET n == BitLen(a)
           m == BitLen(b)
           k == n - m + 1                 \* number of low bits of a still to bring down
       IN FoldLeft(LAMBDA acc, i : DivStep(a, b, acc, i), [q |-> <<>>, r |-> Shr(a, k)], [j \in 1..k |-> k - j])

\* floor(sqrt(a)) by bitwise construction; returns [s, exact]
ISqrt(a) ==
  LET n == (BitLen(a) + 1) \div 2
      s == FoldLeft(LAMBDA acc, i : LET t == Add(acc, Pow2N(i)) IN IF Cmp(Sqr(t), a) <= 0 THEN t ELSE acc,
                    <<>>, [j \in 1..(n + 1) |-> n + 1 - j])
  IN [s |-> s, exact |-> Sqr(s) = a]

\* a well-formed canonical BigNat
IsNat(a) == /\ \A i \in 1..Len(a) : a[i] \in 0..(B - 1)
            /\ (a = <<>> \/ a[Len(a)] # 0)
=============================================================================
