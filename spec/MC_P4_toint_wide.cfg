SPECIFICATION Spec
CONSTANTS
  P = 4
  EMIN <- EMIN_WIDE
  EMAX <- EMAX_WIDE
  MODE = "toint"
  E0 <- E0_P1
  GAP = 6
  LOW = 14
  WBITS = 9
INVARIANT NoBad
POSTCONDITION Report
CHECK_DEADLOCK FALSE
