SPECIFICATION Spec
CONSTANTS
  P = 4
  EMIN <- EMIN_NARROW
  EMAX <- EMAX_NARROW
  MODE = "new"
  E0 <- E0_ZERO
  GAP = 6
  LOW = 0
  WBITS = 8
INVARIANT NoBad
POSTCONDITION Report
CHECK_DEADLOCK FALSE
