------------------------------ MODULE AlgArith ------------------------------
(***************************************************************************)
(* (A) Transcription of src/arithmetic.rs, src/base.rs (no_overlap, recip, *)
(* powi), src/functions/fraction.rs, src/functions/sign.rs and the wide    *)
(* integer conversion of src/convert.rs, line by line, over the IEEE       *)
(* module: every f64 operation of the source is one correctly rounded      *)
(* operation here.  Parametric in the format, so that TLC can run it on    *)
(* every operand of a small format (MC_Small) and, at binary64, re-execute *)
(* recorded events (drift check).                                          *)
(***************************************************************************)
EXTENDS DD

\* src/arithmetic.rs:32-37  fast_two_sum (Algorithm 1)
F2S(a, b) == LET s == FAdd(a, b)   z == FSub(s, a) IN TF(s, FSub(b, z))
\* :25-30  renorm3
Renorm3(a, b, c) == LET u == F2S(a, b)   v == F2S(c, u.hi) IN F2S(v.hi, FAdd(u.lo, v.lo))

\* :42-49 new_add (Algorithm 2), :54-61 new_sub, :65-71 new_mul (Algorithm 3), :76-83 new_div
ANewAdd(a, b) == LET s == FAdd(a, b)   aa == FSub(s, b)   bb == FSub(s, aa)
                     da == FSub(a, aa)   db == FSub(b, bb) IN TF(s, FAdd(da, db))
ANewSub(a, b) == LET s == FSub(a, b)   aa == FAdd(s, b)   bb == FSub(s, aa)
                     da == FSub(a, aa)   db == FAdd(b, bb) IN TF(s, FSub(da, db))
ANewMul(a, b) == LET p == FMul(a, b) IN TF(p, FMA(a, b, FNeg(p)))
ANewDiv(a, b) == LET th == FDiv(a, b)   pp == ANewMul(th, b)
                     dh == FSub(a, pp.hi)   d == FSub(dh, pp.lo)   tl == FDiv(d, b) IN F2S(th, tl)

ANeg(x) == TF(FNeg(x.hi), FNeg(x.lo))

\* binary_ops! bodies (operator forms)
AAddTF(x, f) == LET s == ANewAdd(x.hi, f)   v == FAdd(x.lo, s.lo) IN F2S(s.hi, v)
AAddFT(f, x) == LET s == ANewAdd(x.hi, f)   v == FAdd(x.lo, s.lo) IN F2S(s.hi, v)
AAddTT(x, y) == LET s == ANewAdd(x.hi, y.hi)   t == ANewAdd(x.lo, y.lo)
                    c == FAdd(s.lo, t.hi)   v == F2S(s.hi, c)   w == FAdd(t.lo, v.lo) IN F2S(v.hi, w)
ASubTF(x, f) == LET s == ANewSub(x.hi, f)   v == FAdd(x.lo, s.lo) IN F2S(s.hi, v)
ASubFT(f, x) == LET s == ANewSub(f, x.hi)   v == FSub(s.lo, x.lo) IN F2S(s.hi, v)
ASubTT(x, y) == LET s == ANewSub(x.hi, y.hi)   t == ANewSub(x.lo, y.lo)
                    c == FAdd(s.lo, t.hi)   v == F2S(s.hi, c)   w == FAdd(t.lo, v.lo) IN F2S(v.hi, w)
AMulTF(x, f) == LET c == ANewMul(x.hi, f)   cl3 == FMA(x.lo, f, c.lo) IN F2S(c.hi, cl3)
AMulFT(f, x) == LET c == ANewMul(x.hi, f)   cl3 == FMA(x.lo, f, c.lo) IN F2S(c.hi, cl3)
AMulTT(x, y) == LET c == ANewMul(x.hi, y.hi)   tl0 == FMul(x.lo, y.lo)
                    tl1 == FMA(x.hi, y.lo, tl0)   cl2 == FMA(x.lo, y.hi, tl1)   cl3 == FAdd(c.lo, cl2) IN F2S(c.hi, cl3)
ADivTF(x, f) == LET th == FDiv(x.hi, f)   pp == ANewMul(th, f)
                    dh == FSub(x.hi, pp.hi)   dt == FSub(dh, pp.lo)   d == FAdd(dt, x.lo)   tl == FDiv(d, f) IN F2S(th, tl)
ADivFT(f, y) == LET q1 == FDiv(f, y.hi)
                    r1 == ASubFT(f, AMulTF(y, q1))
                    q2 == FDiv(r1.hi, y.hi)
                    r2 == ASubTT(r1, AMulTF(y, q2))
                    q3 == FDiv(r2.hi, y.hi)
                IN Renorm3(q1, q2, q3)
ADivTT(x, y) == LET q1 == FDiv(x.hi, y.hi)
                    r1 == ASubTT(x, AMulTF(y, q1))
                    q2 == FDiv(r1.hi, y.hi)
                    r2 == ASubTT(r1, AMulTF(y, q2))
                    q3 == FDiv(r2.hi, y.hi)
                IN Renorm3(q1, q2, q3)
ARecip(x) == ADivFT(RN(DOne), x)

\* assign_ops! bodies are separate source lines (hand-duplicated): transcribed separately
AAddAssignTF(x, f) == LET s == ANewAdd(x.hi, f)   v == FAdd(x.lo, s.lo) IN F2S(s.hi, v)
AAddAssignTT(x, y) == LET s == ANewAdd(x.hi, y.hi)   t == ANewAdd(x.lo, y.lo)
                          c == FAdd(s.lo, t.hi)   v == F2S(s.hi, c)   w == FAdd(t.lo, v.lo) IN F2S(v.hi, w)
ASubAssignTF(x, f) == LET s == ANewSub(x.hi, f)   v == FAdd(x.lo, s.lo) IN F2S(s.hi, v)
ASubAssignTT(x, y) == LET s == ANewSub(x.hi, y.hi)   t == ANewSub(x.lo, y.lo)
                          c == FAdd(s.lo, t.hi)   v == F2S(s.hi, c)   w == FAdd(t.lo, v.lo) IN F2S(v.hi, w)
AMulAssignTF(x, f) == LET c == ANewMul(x.hi, f)   cl3 == FMA(x.lo, f, c.lo) IN F2S(c.hi, cl3)
AMulAssignTT(x, y) == LET c == ANewMul(x.hi, y.hi)   tl0 == FMul(x.lo, y.lo)
                          tl1 == FMA(x.hi, y.lo, tl0)   cl2 == FMA(x.lo, y.hi, tl1)   cl3 == FAdd(c.lo, cl2) IN F2S(c.hi, cl3)
ADivAssignTF(x, f) == LET th == FDiv(x.hi, f)   pp == ANewMul(th, f)
                          dh == FSub(x.hi, pp.hi)   dt == FSub(dh, pp.lo)   d == FAdd(dt, x.lo)   tl == FDiv(d, f) IN F2S(th, tl)
ADivAssignTT(x, y) == LET q1 == FDiv(x.hi, y.hi)
                          r1 == ASubTT(x, AMulTF(y, q1))
                          q2 == FDiv(r1.hi, y.hi)
                          r2 == ASubAssignTT(r1, AMulTF(y, q2))
                          q3 == FDiv(r2.hi, y.hi)
                      IN Renorm3(q1, q2, q3)

\* ---- src/functions/fraction.rs ---------------------------------------------------
FromW(w) == TF(w, Zero(FALSE))
IsZeroNum(w) == w.k = "f" /\ w.mag = <<>>                  \* w == 0.0
GeZero(w) == (w.k = "i" /\ ~w.neg) \/ (w.k = "f" /\ (w.mag = <<>> \/ ~w.neg))     \* w >= 0.0
One(neg) == RN([neg |-> neg, mag |-> <<1>>, e |-> 0])
HalfW == RN(DPow2(-1))
AFract(x) ==
  LET hf == FModfFrac(x.hi)   lf == FModfFrac(x.lo) IN
  IF IsZeroNum(lf) THEN FromW(hf)
  ELSE IF IsZeroNum(hf)
       THEN (IF GeZero(x.hi) /\ ~GeZero(x.lo) THEN F2S(One(FALSE), lf)
             ELSE IF ~GeZero(x.hi) /\ GeZero(x.lo) THEN F2S(One(TRUE), lf)
             ELSE FromW(FModfFrac(x.lo)))
  ELSE F2S(FModfFrac(x.hi), x.lo)
ACeil(x) ==
  IF IsZeroNum(FModfFrac(x.lo)) THEN TF(FCeil(x.hi), x.lo)
  ELSE IF IsZeroNum(FModfFrac(x.hi)) THEN F2S(x.hi, FCeil(x.lo))
  ELSE FromW(FCeil(x.hi))
AFloor(x) ==
  IF IsZeroNum(FModfFrac(x.lo)) THEN TF(FFloor(x.hi), x.lo)
  ELSE IF IsZeroNum(FModfFrac(x.hi)) THEN F2S(x.hi, FFloor(x.lo))
  ELSE FromW(FFloor(x.hi))
ATrunc(x) == IF ~x.hi.neg THEN AFloor(x) ELSE ACeil(x)
ARound(x) ==
  IF IsZeroNum(FModfFrac(x.lo)) THEN TF(FRound(x.hi), x.lo)
  ELSE IF IsZeroNum(FModfFrac(x.hi))
       THEN (IF FEq(FAbs(FModfFrac(x.lo)), HalfW)
             THEN (IF ~x.hi.neg THEN F2S(x.hi, FCeil(x.lo)) ELSE F2S(x.hi, FFloor(x.lo)))
             ELSE F2S(x.hi, FRound(x.lo)))
  ELSE IF FEq(FAbs(FModfFrac(x.hi)), HalfW)
       THEN (IF x.hi.neg = x.lo.neg THEN FromW(FRound(x.hi)) ELSE FromW(FTrunc(x.hi)))
  ELSE FromW(FRound(x.hi))

\* rem / div_euclid / rem_euclid (arithmetic.rs:211-224, 336-374)
ARemTT(x, y) == LET q == ATrunc(ADivTT(x, y)) IN ASubTT(x, AMulTT(q, y))
ARemTF(x, f) == LET q == ATrunc(ADivTF(x, f)) IN ASubTT(x, AMulTF(q, f))
ARemFT(f, y) == LET q == ATrunc(ADivFT(f, y)) IN ASubFT(f, AMulTT(q, y))
ARemEuclid(x, y) == LET r == ARemTT(x, y) IN
                    IF FLt(r.hi, Zero(FALSE)) \/ (FEq(r.hi, Zero(FALSE)) /\ FLt(r.lo, Zero(FALSE)))
                    THEN AAddTT(r, IF FGt(y.hi, Zero(FALSE)) \/ (IsZeroNum(y.hi) /\ ~y.hi.neg /\ ~y.lo.neg) THEN y ELSE ANeg(y))
                    ELSE r

\* TwoFloat compared with the f64 zero (PartialOrd<f64>: hi first, then lo against 0.0)
LtZero(x) == FLt(x.hi, Zero(FALSE)) \/ (FEq(x.hi, Zero(FALSE)) /\ FLt(x.lo, Zero(FALSE)))
GtZero(x) == FGt(x.hi, Zero(FALSE)) \/ (FEq(x.hi, Zero(FALSE)) /\ FGt(x.lo, Zero(FALSE)))
\* arithmetic.rs:336-374  div_euclid, rem_euclid
ADivEuclid(x, y) ==
  LET q == ATrunc(ADivTT(x, y)) IN
  IF LtZero(ASubTT(x, AMulTT(q, y)))
  THEN (IF GtZero(y) THEN ASubTF(q, One(FALSE)) ELSE AAddTF(q, One(FALSE)))
  ELSE q

\* ---- src/functions/power.rs:16-26  sqrt (Karp-Markstein with one double-word correction) ----
ASqrt(x) ==
  IF FLt(x.hi, Zero(FALSE)) \/ (IsZeroNum(x.hi) /\ FLt(x.lo, Zero(FALSE))) THEN TF(NaN, NaN)
  ELSE IF IsZeroNum(x.hi) /\ IsZeroNum(x.lo) THEN TF(Zero(FALSE), Zero(FALSE))
  ELSE LET rx == FDiv(One(FALSE), FSqrt(x.hi))
           y == FMul(x.hi, rx)
           corr == FMul(ASubTT(x, ANewMul(y, y)).hi, FMul(rx, HalfW))
       IN ANewAdd(y, corr)
\* ---- src/functions/power.rs  cbrt: two Newton steps from libm::cbrt(hi) ------------------------------
\* libm's cbrt is not correctly rounded (error < 1 ulp), so the seed is a parameter: the small-format model
\* quantifies over every word within one ulp of the true cube root.
W3 == RN(DInt(3))
ACbrtFrom(x, seed) ==
  IF IsZeroNum(x.hi) THEN x
  ELSE LET x0 == FromW(seed)
           s0 == AMulTT(x0, x0)
           x1 == ASubAssignTT(x0, ADivTT(ASubTT(AMulTT(s0, x0), x), AMulFT(W3, s0)))
           s1 == AMulTT(x1, x1)
       IN ASubTT(x1, ADivTT(ASubTT(AMulTT(s1, x1), x), AMulFT(W3, s1)))
AHypot(x, y) == ASqrt(AAddTT(AMulTT(x, x), AMulTT(y, y)))

\* ---- src/base.rs:266-295  powi (n given as sign + BigNat magnitude) ---------------------------
APowiLoop(x, nmag) ==
  FoldLeft(LAMBDA acc, i : [res |-> IF TestBit(nmag, i) THEN AMulAssignTT(acc.res, acc.val) ELSE acc.res,
                            val |-> AMulAssignTT(acc.val, acc.val)],
           [res |-> FromW(One(FALSE)), val |-> x], [j \in 1..BitLen(nmag) |-> j - 1]).res
\* ---- src/base.rs:177-207 min / max; src/functions/sign.rs signum, copysign (need validity) ----
AIsValid(x) == x.hi.k = "f" /\ x.lo.k = "f" /\ NoOverlapDef(x.hi, x.lo)
LexLe(a, b) == LET c == FCmp(a.hi, b.hi) IN IF c = 0 THEN FCmp(a.lo, b.lo) \in {-1, 0} ELSE c = -1
AMin(a, b) == IF ~AIsValid(a) THEN b ELSE IF ~AIsValid(b) \/ LexLe(a, b) THEN a ELSE b
AMax(a, b) == IF ~AIsValid(a) THEN b ELSE IF ~AIsValid(b) \/ LexLe(b, a) THEN a ELSE b
ASignum(x) == IF AIsValid(x) THEN (IF ~x.hi.neg THEN FromW(One(FALSE)) ELSE FromW(One(TRUE))) ELSE TF(NaN, NaN)
ACopySign(x, s) == IF x.hi.neg = s.hi.neg THEN x ELSE ANeg(x)

\* ---- src/base.rs:7-15, 220-236  angle conversions (binary64 constants) ------------------------
DegPerRad == TF([k |-> "f", neg |-> FALSE, mag |-> <<16888,13511,6000,229>>, e |-> -47],
                [k |-> "f", neg |-> TRUE, mag |-> <<1529,2760,7853,143>>, e |-> -101])
RadPerDeg == TF([k |-> "f", neg |-> FALSE, mag |-> <<7481,17573,32026,142>>, e |-> -58],
                [k |-> "f", neg |-> FALSE, mag |-> <<21137,32155,1890,174>>, e |-> -114])

\* ---- src/base.rs:35-60  no_overlap, by exponent-field arithmetic ---------------------
BiasedExp(a) == (a.e + P - 1) - EMIN + 1
ANoOverlap(a, b) ==
  IF IsNormal(a)
  THEN IF IsZeroNum(b) THEN TRUE
       ELSE LET be == BiasedExp(a)
                mantzero == a.mag = Pow2N(P - 1)
                offset == IF mantzero /\ b.k # "n" /\ a.neg # b.neg THEN EMAX + P + 1 ELSE EMAX + P
                limit == Exp2Int(be - offset)
                c == FCmp(FAbs(b), limit)
            IN IF c = -1 THEN TRUE ELSE IF c = 0 THEN ~IsOdd(a.mag) ELSE FALSE
  ELSE IF a.k = "f" THEN IsZeroNum(b)
  ELSE FALSE

\* ---- src/functions/sign.rs ---------------------------------------------------------
AAbs(x) == IF FGt(x.hi, Zero(FALSE)) \/ (IsZeroNum(x.hi) /\ ~x.hi.neg /\ ~x.lo.neg) THEN x ELSE ANeg(x)

\* ---- src/convert.rs:113-127  From<wide integer>, for an integer type of `bits` bits --------
\* Rust `as`: integer -> float rounds to nearest even; float -> integer truncates and saturates
IntToW(n) == IF n = 0 THEN Zero(FALSE) ELSE RN(DInt(n))
WToIntSat(w, lo, hi) ==
  IF w.k = "n" THEN 0
  ELSE IF w.k = "i" THEN (IF w.neg THEN lo ELSE hi)
  ELSE LET t == DTrunc(D(w)) IN
       IF t.mag = <<>> THEN 0
       ELSE IF DCmp(t, DInt(hi)) >= 0 THEN hi
       ELSE IF DCmp(t, DInt(lo)) <= 0 THEN lo
       ELSE (IF t.neg THEN -ToInt(Shl(t.mag, t.e)) ELSE ToInt(Shl(t.mag, t.e)))
\* the pair (a, b) that the macro assembles; `fixed` = with the renormalising fast_two_sum
AFromWideWords(value, lo, hi) ==
  LET a == IntToW(value)
      ai == WToIntSat(a, lo, hi)
      b == IF FEq(a, IntToW(hi)) THEN FNeg(IntToW((hi - value) + 1))
           ELSE IF value >= ai THEN IntToW(value - ai)
           ELSE FNeg(IntToW(ai - value))
  IN TF(a, b)
AFromWide(value, lo, hi) == LET w == AFromWideWords(value, lo, hi) IN F2S(w.hi, w.lo)

\* ---- src/convert.rs  TryFrom<TwoFloat> for integer types ------------------------------------------
\* bigint_convert (types wider than the significand; at binary64: i64, u64, i128, u128):
\*   LOWER = (MIN as f64, 0), UPPER = (MAX as f64, -1.0); range test by the lexicographic order of TwoFloat;
\*   three ways of assembling the integer from the two words.  Returns [ok, n, ovf]; ovf = an intermediate
\*   integer left the type (Rust would panic with overflow checks, wrap without).
InT(n, lo, hi) == n >= lo /\ n <= hi
AToWide(x, lo, hi) ==
  LET fmin == IntToW(lo)   fmax == IntToW(hi)
      LOWERB == TF(fmin, Zero(FALSE))   UPPERB == TF(fmax, FNeg(One(FALSE)))
      t == ATrunc(x)
  IN IF ~(t.hi.k = "f" /\ t.lo.k = "f" /\ LexLe(LOWERB, t) /\ LexLe(t, UPPERB)) THEN [ok |-> FALSE, n |-> 0, ovf |-> FALSE]
     ELSE IF FEq(t.hi, fmax)
          THEN LET c == WToIntSat(FNeg(t.lo), lo, hi) IN [ok |-> TRUE, n |-> hi - c + 1, ovf |-> ~InT(hi - c, lo, hi) \/ ~InT(hi - c + 1, lo, hi)]
     ELSE IF GeZero(t.lo)
          THEN LET a == WToIntSat(t.hi, lo, hi)   b == WToIntSat(t.lo, lo, hi) IN [ok |-> TRUE, n |-> a + b, ovf |-> ~InT(a + b, lo, hi)]
     ELSE LET a == WToIntSat(t.hi, lo, hi)   b == WToIntSat(FNeg(t.lo), lo, hi) IN [ok |-> TRUE, n |-> a - b, ovf |-> ~InT(a - b, lo, hi)]
\* int_convert (types that fit the significand; at binary64: i8..i32, u8..u32): f64 bounds, TwoFloat item
\* (`f64 <= TwoFloat` compares the high words, then 0 with the low word), then `truncated.hi() as T`
LeWT(w, t) == LET c == FCmp(w, t.hi) IN IF c = 0 THEN FCmp(Zero(FALSE), t.lo) \in {-1, 0} ELSE c = -1
LeTW(t, w) == LET c == FCmp(t.hi, w) IN IF c = 0 THEN FCmp(t.lo, Zero(FALSE)) \in {-1, 0} ELSE c = -1
AToNarrow(x, lo, hi) ==
  LET t == ATrunc(x) IN
  IF ~(t.hi.k = "f" /\ t.lo.k = "f" /\ LeWT(IntToW(lo), t) /\ LeTW(t, IntToW(hi))) THEN [ok |-> FALSE, n |-> 0, ovf |-> FALSE]
  ELSE [ok |-> TRUE, n |-> WToIntSat(t.hi, lo, hi), ovf |-> FALSE]
=============================================================================
