------------------------------- MODULE RoundDD -------------------------------
(***************************************************************************)
(* The correctly rounded double-double of a real number given by a tight   *)
(* ball enclosure: hi = RN(c), lo = RN(c - hi).                            *)
(***************************************************************************)
EXTENDS DD, Elementary

\* correctly rounded double-double of a real enclosed by a (tight) ball: [ok, x]
CorrectDD(b) ==
  LET h1 == RN(BLoD(b))   h2 == RN(BHiD(b)) IN
  IF h1 # h2 \/ h1.k # "f" THEN [ok |-> FALSE, x |-> TF(NaN, NaN)]
  ELSE LET rest == BSub(b, BExact(D(h1)))
           l1 == RN(BLoD(rest))   l2 == RN(BHiD(rest))
       IN IF l1 # l2 THEN [ok |-> FALSE, x |-> TF(NaN, NaN)] ELSE [ok |-> TRUE, x |-> TF(h1, l1)]

=============================================================================
