SPECIFICATION Spec
CONSTANTS
  P = 3
  EMIN <- EMIN_WIDE
  EMAX <- EMAX_WIDE
  MODE = "powi"
  E0 <- E0_M2
  GAP = 0
  LOW = 10
  WBITS = 8
INVARIANT NoBad
POSTCONDITION Report
CHECK_DEADLOCK FALSE
