----------------------------- MODULE SmallFormat -----------------------------
(***************************************************************************)
(* Enumerations that only make sense for small formats (P <= 8 or so):     *)
(* the set of all words and of all valid TwoFloats.  Kept out of IEEE/DD   *)
(* because TLC pre-evaluates zero-arity constant definitions at start-up.  *)
(***************************************************************************)
EXTENDS DD, TLC

FinWords == { [k |-> "f", neg |-> s, mag |-> FromInt(m), e |-> e] :
                s \in BOOLEAN, m \in P2(P - 1)..(P2(P) - 1), e \in QMIN..QMAX }
            \cup { [k |-> "f", neg |-> s, mag |-> FromInt(m), e |-> QMIN] :
                     s \in BOOLEAN, m \in 0..(P2(P - 1) - 1) }
AllWords == FinWords \cup {Inf(TRUE), Inf(FALSE), NaN}

\* finite words with lsb exponent in a window (normal numbers only), both signs
WordsIn(elo, ehi) == { [k |-> "f", neg |-> s, mag |-> FromInt(m), e |-> e] :
                         s \in BOOLEAN, m \in P2(P - 1)..(P2(P) - 1), e \in elo..ehi }
ValidPairsOf(his, los) == UNION { { TF(h, l) : l \in { x \in los : NoOverlapLiteral(h, x) } } : h \in his }
=============================================================================
