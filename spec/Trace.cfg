SPECIFICATION TraceSpec
CONSTANTS
  P <- F64_P
  EMIN <- F64_EMIN
  EMAX <- F64_EMAX
INVARIANT TraceTypeOK
POSTCONDITION TraceAccepted
CHECK_DEADLOCK FALSE
