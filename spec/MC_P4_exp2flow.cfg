SPECIFICATION Spec
CONSTANTS
  P = 4
  EMIN <- EMIN_NARROW
  EMAX <- EMAX_NARROW
  MODE = "exp2flow"
  E0 <- E0_M3
  GAP = 4
  LOW = 6
  WBITS = 8
INVARIANT NoBad
POSTCONDITION Report
CHECK_DEADLOCK FALSE
