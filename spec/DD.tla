--------------------------------- MODULE DD ---------------------------------
(***************************************************************************)
(* Double-double values: a TwoFloat is a pair of words [hi, lo]; its value *)
(* is the exact real hi + lo.  Definition 1.4 of Joldes et al.: the pair   *)
(* is non-overlapping iff hi = RN(hi + lo).                                *)
(***************************************************************************)
EXTENDS IEEE

TF(h, l) == [hi |-> h, lo |-> l]

\* binary32, for f32::from(TwoFloat) / From<f32>
F32 == INSTANCE IEEE WITH P <- 24, EMIN <- -126, EMAX <- 127
CastF32(w) == IF w.k = "f" THEN F32!RN(D(w)) ELSE w

\* exact value of a pair of finite words
Value(x) == DAdd(D(x.hi), D(x.lo))

\* Definition 1.4, literally: a finite and the correctly rounded sum a + b equals a (as numbers)
NoOverlapLiteral(a, b) == a.k = "f" /\ b.k = "f" /\ FEq(FAdd(a, b), a)

\* the same predicate with a shortcut that avoids aligning words that are hundreds of binades
\* apart: |b| < ulp(a)/4 can never change the rounding.  SelfTest_DD checks equivalence with the
\* literal definition on every pair of a small format.
NoOverlapDef(a, b) ==
  /\ a.k = "f" /\ b.k = "f"
  /\ \/ b.mag = <<>>
     \/ /\ a.mag # <<>>
        /\ b.e + BitLen(b.mag) < a.e + BitLen(a.mag) + 2        \* else |b| >= 4|a|/2: the sum cannot be a
        /\ \/ b.e + BitLen(b.mag) - 1 < a.e - 2
           \/ FEq(FAdd(a, b), a)

Valid(x) == x.hi.k = "f" /\ x.lo.k = "f" /\ NoOverlapDef(x.hi, x.lo)
\* C01: valid, or explicitly non-finite in the high word
Normalised(x) == x.hi.k # "f" \/ Valid(x)

IsZeroTF(x) == IsZeroW(x.hi) /\ IsZeroW(x.lo)
NegTF(x) == TF(FNeg(x.hi), FNeg(x.lo))

\* |w| = 0 or 2^lo2 <= |w| <= 2^hi2 for a finite word
WInRange(w, lo2, hi2) ==
  /\ w.k = "f"
  /\ \/ w.mag = <<>>
     \/ LET msb == w.e + BitLen(w.mag) - 1 IN
        /\ msb >= lo2
        /\ (msb < hi2 \/ (msb = hi2 /\ Tz(w.mag) = BitLen(w.mag) - 1))
WInRangeNZ(w, lo2, hi2) == WInRange(w, lo2, hi2) /\ w.mag # <<>>
\* a valid TwoFloat whose high word is 0 or in [2^lo2, 2^hi2]
InDom(x, lo2, hi2) == Valid(x) /\ WInRange(x.hi, lo2, hi2)
InDomNZ(x, lo2, hi2) == Valid(x) /\ WInRangeNZ(x.hi, lo2, hi2)

\* is the dyadic v (exactly) plus or minus a power of two?
IsPow2D(v) == v.mag # <<>> /\ Tz(v.mag) = BitLen(v.mag) - 1
\* integer-valued and |v| < 2^k
IsIntBelow(v, k) == DIsInt(v) /\ (v.mag = <<>> \/ DMsb(v) < k)
=============================================================================
