SPECIFICATION Spec
CONSTANTS
  P = 4
  EMIN <- EMIN_WIDE
  EMAX <- EMAX_WIDE
  MODE = "wide"
  E0 <- E0_ZERO
  GAP = 1
  LOW = 1
  WBITS = 12
INVARIANT NoBad
POSTCONDITION Report
CHECK_DEADLOCK FALSE
