SPECIFICATION Spec
CONSTANTS
  P = 3
  EMIN <- EMIN_WIDE
  EMAX <- EMAX_WIDE
  MODE = "euclid"
  E0 <- E0_ZERO
  GAP = 3
  LOW = 2
  WBITS = 8
INVARIANT NoBad
POSTCONDITION Report
CHECK_DEADLOCK FALSE
