-------------------------------- MODULE IEEE --------------------------------
(***************************************************************************)
(* A binary floating-point format (P bits of precision, normal exponents   *)
(* EMIN..EMAX) with signed zeros, subnormals, infinities and NaN, and the  *)
(* correctly rounded (round-to-nearest-even) operations on it.  P = 53,    *)
(* EMIN = -1022, EMAX = 1023 is binary64; the same text instantiated with  *)
(* P = 3..6 gives the small formats that TLC enumerates completely.        *)
(*                                                                         *)
(* Canonical word  [k, neg, mag, e]:                                       *)
(*   k = "f": value (-1)^neg * mag * 2^e with either 2^(P-1) <= mag < 2^P  *)
(*            and e >= QMIN (normal) or mag < 2^(P-1) and e = QMIN         *)
(*            (subnormal / zero, zero has mag = <<>>)                      *)
(*   k = "i": infinity of sign neg  (mag = <<>>, e = 0)                    *)
(*   k = "n": NaN (neg = FALSE, mag = <<>>, e = 0; all NaNs are one class) *)
(* Bit identity of words is record equality.                               *)
(***************************************************************************)
EXTENDS Dyadic

CONSTANTS P, EMIN, EMAX

QMIN == EMIN - P + 1              \* exponent of the least subnormal bit
QMAX == EMAX - P + 1              \* largest quantum exponent

Zero(neg) == [k |-> "f", neg |-> neg, mag |-> <<>>, e |-> QMIN]
Inf(neg)  == [k |-> "i", neg |-> neg, mag |-> <<>>, e |-> 0]
NaN       == [k |-> "n", neg |-> FALSE, mag |-> <<>>, e |-> 0]

IsFin(w) == w.k = "f"
IsInf(w) == w.k = "i"
IsNaN(w) == w.k = "n"
IsZeroW(w) == w.k = "f" /\ w.mag = <<>>
IsSubnormal(w) == w.k = "f" /\ w.mag # <<>> /\ BitLen(w.mag) < P
IsNormal(w) == w.k = "f" /\ BitLen(w.mag) = P

\* a syntactically canonical word of this format
IsWord(w) ==
  \/ w = NaN \/ w = Inf(TRUE) \/ w = Inf(FALSE)
  \/ /\ w.k = "f" /\ w.neg \in BOOLEAN /\ IsNat(w.mag)
     /\ \/ BitLen(w.mag) = P /\ w.e >= QMIN /\ w.e <= QMAX
        \/ BitLen(w.mag) < P /\ w.e = QMIN

\* exact value of a finite word
D(w) == [neg |-> w.neg, mag |-> w.mag, e |-> w.e]

\* round-to-nearest-even of an exact dyadic
RN(x) ==
  IF x.mag = <<>> THEN Zero(x.neg) ELSE
  LET L == BitLen(x.mag)
      msb == x.e + L - 1
      q0 == IF msb - P + 1 > QMIN THEN msb - P + 1 ELSE QMIN
  IN IF q0 <= x.e
     THEN IF msb > EMAX THEN Inf(x.neg)
          ELSE [k |-> "f", neg |-> x.neg, mag |-> Shl(x.mag, x.e - q0), e |-> q0]
     ELSE LET k == q0 - x.e
              qt == Shr(x.mag, k)
              half == TestBit(x.mag, k - 1)
              sticky == ~LowZero(x.mag, k - 1)
              q1 == IF half /\ (sticky \/ IsOdd(qt)) THEN Add(qt, <<1>>) ELSE qt
              carry == BitLen(q1) > P
              m2 == IF carry THEN Shr(q1, 1) ELSE q1
              e2 == IF carry THEN q0 + 1 ELSE q0
          IN IF m2 = <<>> THEN Zero(x.neg)
             ELSE IF e2 + BitLen(m2) - 1 > EMAX THEN Inf(x.neg)
             ELSE [k |-> "f", neg |-> x.neg, mag |-> m2, e |-> e2]

\* is the dyadic x exactly representable as a finite word?
Representable(x) == x.mag = <<>> \/ (LET r == RN(x) IN r.k = "f" /\ DCmp(D(r), x) = 0)

FNeg(a) == IF a.k = "n" THEN a ELSE [a EXCEPT !.neg = ~@]
FAbs(a) == IF a.k = "n" THEN a ELSE [a EXCEPT !.neg = FALSE]
CopySign(a, s) == IF a.k = "n" THEN a ELSE [a EXCEPT !.neg = s.neg]
SignBit(a) == a.neg          \* NaN sign is unspecified; callers must not depend on it

FAdd(a, b) ==
  IF a.k = "n" \/ b.k = "n" THEN NaN
  ELSE IF a.k = "i" THEN (IF b.k = "i" /\ b.neg # a.neg THEN NaN ELSE a)
  ELSE IF b.k = "i" THEN b
  ELSE LET s == DAdd(D(a), D(b)) IN
       IF s.mag = <<>> THEN Zero(a.neg /\ b.neg) ELSE RN(s)
FSub(a, b) == FAdd(a, FNeg(b))

FMul(a, b) ==
  IF a.k = "n" \/ b.k = "n" THEN NaN
  ELSE IF a.k = "i" \/ b.k = "i"
       THEN (IF IsZeroW(a) \/ IsZeroW(b) THEN NaN ELSE Inf(a.neg # b.neg))
  ELSE IF a.mag = <<>> \/ b.mag = <<>> THEN Zero(a.neg # b.neg)
  ELSE RN(DMul(D(a), D(b)))

\* fused multiply-add, one rounding
FMA(a, b, c) ==
  IF a.k = "n" \/ b.k = "n" \/ c.k = "n" THEN NaN
  ELSE IF a.k = "i" \/ b.k = "i"
       THEN (IF IsZeroW(a) \/ IsZeroW(b) THEN NaN
             ELSE IF c.k = "i" /\ c.neg # (a.neg # b.neg) THEN NaN
             ELSE Inf(a.neg # b.neg))
  ELSE IF c.k = "i" THEN c
  ELSE LET s == DAdd(DMul(D(a), D(b)), D(c)) IN
       IF s.mag = <<>>
       THEN (IF (a.mag = <<>> \/ b.mag = <<>>) /\ c.mag = <<>>
             THEN Zero((a.neg # b.neg) /\ c.neg)       \* (+-0) + (+-0)
             ELSE Zero(FALSE))                          \* exact cancellation
       ELSE RN(s)

\* quotient of two non-zero finite words, correctly rounded (long division + sticky bit)
FDivFin(a, b) ==
  LET la == BitLen(a.mag)   lb == BitLen(b.mag)
      s == MaxI(0, P + 2 + lb - la)
      d == DivMod(Shl(a.mag, s), b.mag)
      m == Add(Shl(d.q, 1), IF d.r = <<>> THEN <<>> ELSE <<1>>)
  IN RN([neg |-> a.neg # b.neg, mag |-> m, e |-> a.e - b.e - s - 1])
FDiv(a, b) ==
  IF a.k = "n" \/ b.k = "n" THEN NaN
  ELSE IF a.k = "i" THEN (IF b.k = "i" THEN NaN ELSE Inf(a.neg # b.neg))
  ELSE IF b.k = "i" THEN Zero(a.neg # b.neg)
  ELSE IF b.mag = <<>> THEN (IF a.mag = <<>> THEN NaN ELSE Inf(a.neg # b.neg))
  ELSE IF a.mag = <<>> THEN Zero(a.neg # b.neg)
  ELSE FDivFin(a, b)

\* square root, correctly rounded
FSqrt(a) ==
  IF a.k = "n" THEN NaN
  ELSE IF IsZeroW(a) THEN a
  ELSE IF a.neg THEN NaN
  ELSE IF a.k = "i" THEN a
  ELSE LET la == BitLen(a.mag)
           s0 == MaxI(0, 2 * P + 4 - la)
           s == IF (a.e - s0) % 2 = 0 THEN s0 ELSE s0 + 1
           r == ISqrt(Shl(a.mag, s))
           m == Add(Shl(r.s, 1), IF r.exact THEN <<>> ELSE <<1>>)
       IN RN([neg |-> FALSE, mag |-> m, e |-> (a.e - s) \div 2 - 1])

\* IEEE comparisons (NaN unordered, -0 = +0).  FCmp in {-1, 0, 1, 2}; 2 = unordered
FCmp(a, b) ==
  IF a.k = "n" \/ b.k = "n" THEN 2
  ELSE IF a.k = "i" THEN (IF b.k = "i" /\ a.neg = b.neg THEN 0 ELSE IF a.neg THEN -1 ELSE 1)
  ELSE IF b.k = "i" THEN (IF b.neg THEN 1 ELSE -1)
  ELSE DCmp(D(a), D(b))
FEq(a, b) == FCmp(a, b) = 0
FLt(a, b) == FCmp(a, b) = -1
FLe(a, b) == FCmp(a, b) \in {-1, 0}
FGt(a, b) == FCmp(a, b) = 1
FGe(a, b) == FCmp(a, b) \in {0, 1}

\* libm-style rounding functions on words (results keep the sign of the argument when zero)
WFromInt(x, neg) == IF x.mag = <<>> THEN Zero(neg) ELSE RN(x)       \* x an integer-valued dyadic
FTrunc(a) == IF a.k # "f" THEN a ELSE WFromInt(DTrunc(D(a)), a.neg)
FFloor(a) == IF a.k # "f" THEN a ELSE WFromInt(DFloor(D(a)), a.neg)
FCeil(a)  == IF a.k # "f" THEN a ELSE WFromInt(DCeil(D(a)), a.neg)
FRound(a) == IF a.k # "f" THEN a ELSE WFromInt(DRoundHalfAway(D(a)), a.neg)
\* modf(x).0: the fractional part with the sign of x (zero for integers and infinities)
FModfFrac(a) == IF a.k = "n" THEN NaN
                ELSE IF a.k = "i" THEN Zero(a.neg)
                ELSE LET f == DFract(D(a)) IN IF f.mag = <<>> THEN Zero(a.neg) ELSE RN(f)

\* 2^k as a word, with libm exp2's underflow to +0 and overflow to +inf (k an integer)
Exp2Int(k) == IF k > EMAX THEN Inf(FALSE)
              ELSE IF k < QMIN THEN Zero(FALSE)
              ELSE RN(DPow2(k))

\* unit in the last place of a finite non-zero word (as a dyadic exponent)
UlpExp(a) == a.e
\* neighbours
MaxFinite(neg) == [k |-> "f", neg |-> neg, mag |-> Sub(Pow2N(P), <<1>>), e |-> QMAX]
NextUpMag(a) ==          \* next larger magnitude of a finite word (may overflow to inf)
  IF a.mag = <<>> THEN [a EXCEPT !.mag = <<1>>]
  ELSE LET m == Add(a.mag, <<1>>) IN
       IF BitLen(m) > P THEN (IF a.e + 1 > QMAX THEN Inf(a.neg) ELSE [a EXCEPT !.mag = Shr(m, 1), !.e = a.e + 1])
       ELSE [a EXCEPT !.mag = m]
NextDownMag(a) ==        \* next smaller magnitude of a finite non-zero word
  LET m == Sub(a.mag, <<1>>) IN
  IF BitLen(m) < P /\ a.e > QMIN THEN [a EXCEPT !.mag = Add(Shl(m, 1), <<1>>), !.e = a.e - 1]
  ELSE [a EXCEPT !.mag = m]

=============================================================================
