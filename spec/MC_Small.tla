------------------------------ MODULE MC_Small ------------------------------
(***************************************************************************)
(* Leg A: exhaustive small-format models.  The transcribed algorithms      *)
(* (AlgArith) are run on EVERY operand of a small floating-point format    *)
(* and checked against the same contracts that validate the real crate's   *)
(* traces (the Contracts modules), plus bit-level identities between the duplicated   *)
(* source bodies.  One TLC state per left operand (the right operands are  *)
(* enumerated inside the action); slices run as separate TLC processes.    *)
(*   MODE  = "addsub" | "mul" | "div" | "rem" | "new" | "nov" | "frac" |   *)
(*           "wide" | "cmp" | "expflow" | "expflow_old" | "quadrant" |     *)
(*           "atanflow" | "powfflow" | "euclid" | "exp2scale[_old]" |      *)
(*           "exp2flow" | "sqrt" | "cbrt" | "powi" | "asinflow" | "toint"  *)
(* A violated contract makes the invariant NoBad fail; the counterexample  *)
(* state carries the operands and the violated clauses.                    *)
(***************************************************************************)
EXTENDS AlgFlow, ContractsConv, SmallFormat, IOUtils, FiniteSets

CONSTANTS MODE, E0, GAP, LOW, WBITS

\* exponent ranges (negative numbers cannot be written in a .cfg file)
EMIN_WIDE == -40
EMAX_WIDE == 40
EMIN_NARROW == -7
EMIN_MID == -14
EMAX_NARROW == 8
E0_ZERO == 0
E0_LOW == -6
E0_M3 == -3
E0_P2 == 2
E0_P1 == 1
E0_M5 == -5
E0_M2 == -2
E0_M4 == -4

Slice == atoi(IOEnv.VERIF_SLICE)
NSlices == atoi(IOEnv.VERIF_NSLICES)

VARIABLES i, bad, cnt
vars == <<i, bad, cnt>>

\* ---- operand sets -------------------------------------------------------------------
\* low words admitted beside a high word h: zero (both signs) and every finite word whose msb
\* lies at most LOW binades below half an ulp of h, of either sign, if the pair is non-overlapping
LoWordsFor(h) ==
  LET top == h.e - 1 IN             \* msb exponent of half an ulp
  { Zero(FALSE), Zero(TRUE) } \cup
  { w \in WordsIn(MaxI(QMIN, top - LOW - P + 1), top - P + 1) \cup
          { [k |-> "f", neg |-> s, mag |-> FromInt(m), e |-> QMIN] : s \in BOOLEAN, m \in 1..(P2(P - 1) - 1) } :
      NoOverlapLiteral(h, w) }
ValidWithHi(his) == UNION { { TF(h, l) : l \in LoWordsFor(h) } : h \in his }
PosBinade == { w \in WordsIn(E0, E0) : ~w.neg }
ASet == TLCEval(ValidWithHi(PosBinade))
BSet == TLCEval(ValidWithHi(WordsIn(E0 - GAP, E0 + GAP)) \cup {TF(Zero(FALSE), Zero(FALSE)), TF(Zero(TRUE), Zero(FALSE))})
BWords == TLCEval(WordsIn(E0 - GAP, E0 + GAP) \cup {Zero(FALSE), Zero(TRUE)})

SeqOfSet(S) == SetToSeq(S)
SliceOf(sq) == LET n == (Len(sq) - Slice + NSlices - 1) \div NSlices IN [k \in 1..n |-> sq[(k - 1) * NSlices + Slice + 1]]

TFA(x) == [t |-> "tf", x |-> x]
FA(w) == [t |-> "f", w |-> w]
Res(x) == [t |-> "tf", x |-> x]
NoDE == [has |-> FALSE, x |-> TF(Zero(FALSE), Zero(FALSE))]
Real(fails) == fails \ {Skip}
\* one obligation: contract clauses violated by the transcription's result
Ob(op, A, x) == LET f == Real(ArithFails(op, A, Res(x), NoDE)) IN IF f = {} THEN {} ELSE {<<op, A, x, f>>}
Same(name, A, x, y) == IF x = y THEN {} ELSE {<<name, A, x, y>>}
SameUpToZero(v, w) == v = w \/ (IsZeroW(v) /\ IsZeroW(w))
SameZ(name, A, x, y) == IF SameUpToZero(x.hi, y.hi) /\ SameUpToZero(x.lo, y.lo) THEN {} ELSE {<<name, A, x, y>>}

\* ---- per-mode checks of one left operand ------------------------------------------------
CheckAddSub(a) ==
  UNION { LET A == <<TFA(a), TFA(b)>>
              s == AAddTT(a, b)   d == ASubTT(a, b)
          IN Ob("add", A, s) \cup Ob("sub", A, d)
             \cup Same("add_assign_copy", A, s, AAddAssignTT(a, b)) \cup Same("sub_assign_copy", A, d, ASubAssignTT(a, b))
             \cup Same("add_commutes", A, s, AAddTT(b, a))
             \cup Same("sub_is_add_neg", A, d, AAddTT(a, ANeg(b)))
             \cup SameZ("sub_antisymmetric_up_to_zero_sign", A, d, ANeg(ASubTT(b, a)))
          : b \in BSet }
  \cup UNION { LET A == <<TFA(a), FA(f)>>
                   s == AAddTF(a, f)   d == ASubTF(a, f)
               IN Ob("add", A, s) \cup Ob("sub", A, d) \cup Ob("sub", <<FA(f), TFA(a)>>, ASubFT(f, a))
                  \cup Same("add_f64_commutes", A, s, AAddFT(f, a))
                  \cup Same("add_assign_f64_copy", A, s, AAddAssignTF(a, f)) \cup Same("sub_assign_f64_copy", A, d, ASubAssignTF(a, f))
               : f \in BWords }
CheckMul(a) ==
  UNION { LET A == <<TFA(a), TFA(b)>>
              m == AMulTT(a, b)
          IN Ob("mul", A, m) \cup Same("mul_assign_copy", A, m, AMulAssignTT(a, b))
             \cup SameZ("neg_mul_up_to_zero_sign", A, ANeg(m), AMulTT(ANeg(a), b))
          : b \in BSet }
  \cup UNION { LET A == <<TFA(a), FA(f)>>
                   m == AMulTF(a, f)
               IN Ob("mul", A, m) \cup Same("mul_f64_commutes", A, m, AMulFT(f, a)) \cup Same("mul_assign_f64_copy", A, m, AMulAssignTF(a, f))
               : f \in BWords }
CheckDiv(a) ==
  UNION { IF IsZeroTF(b) THEN {} ELSE
          LET A == <<TFA(a), TFA(b)>>
              q == ADivTT(a, b)
          IN Ob("div", A, q) \cup Same("div_assign_copy", A, q, ADivAssignTT(a, b))
             \cup Ob("div", <<FA(a.hi), TFA(b)>>, ADivFT(a.hi, b))
          : b \in BSet }
  \cup UNION { IF IsZeroW(f) THEN {} ELSE
               LET A == <<TFA(a), FA(f)>>
                   q == ADivTF(a, f)
               IN Ob("div", A, q) \cup Same("div_assign_f64_copy", A, q, ADivAssignTF(a, f))
               : f \in BWords }
  \cup Ob("recip", <<TFA(a)>>, ARecip(a))
CheckRem(a) ==
  UNION { IF IsZeroTF(b) THEN {} ELSE
          LET A == <<TFA(a), TFA(b)>> IN Ob("rem", A, ARemTT(a, b))
          : b \in BSet }
  \* the f64-divisor and f64-dividend forms (their own bodies in the source)
  \cup UNION { IF IsZeroW(f) THEN {} ELSE
               Ob("rem", <<TFA(a), FA(f)>>, ARemTF(a, f))
               \cup (UNION { IF IsZeroTF(b) THEN {} ELSE Ob("rem", <<FA(f), TFA(b)>>, ARemFT(f, b)) : b \in {a, ANeg(a)} })
               : f \in BWords }
CheckEuclid(a) ==
  UNION { IF IsZeroTF(b) THEN {} ELSE
          UNION { LET A == <<TFA(x), TFA(b)>> IN
                  Ob("div_euclid", A, ADivEuclid(x, b)) \cup Ob("rem_euclid", A, ARemEuclid(x, b))
                  \cup (LET m == AMin(x, b)   M == AMax(x, b) IN
                        IF Real(MinMaxFails("min", TFA(x), TFA(b), Res(m))) = {} /\ Real(MinMaxFails("max", TFA(x), TFA(b), Res(M))) = {}
                        THEN {} ELSE {<<"minmax", x, b>>})
                  : x \in {a, ANeg(a)} }
          : b \in BSet }
CheckNew(a) ==
  \* a.hi against every word (including subnormals, both zeros)
  UNION { LET A == <<FA(a.hi), FA(f)>> IN
          Ob("new_add", A, ANewAdd(a.hi, f)) \cup Ob("new_sub", A, ANewSub(a.hi, f))
          \cup Ob("new_mul", A, ANewMul(a.hi, f))
          \cup (IF IsZeroW(f) THEN {} ELSE Ob("new_div", A, ANewDiv(a.hi, f)))
          : f \in BWords }

\* C07: the exponent-field algorithm against Definition 1.4 on every pair of words of the format
CheckNov(a) ==
  { <<"no_overlap", a, b>> : b \in { w \in AllWords : ANoOverlap(a, w) # NoOverlapLiteral(a, w) } }
  \cup { <<"no_overlap_shortcut", a, b>> : b \in { w \in AllWords : NoOverlapDef(a, w) # NoOverlapLiteral(a, w) } }

\* C08: the case splits of fraction.rs against the exact functions
CheckFrac(a) ==
  UNION { UNION { LET f == Real(FracFails(op, <<TFA(x)>>, Res(CASE op = "floor" -> AFloor(x) [] op = "ceil" -> ACeil(x)
                                                              [] op = "trunc" -> ATrunc(x) [] op = "round" -> ARound(x)
                                                              [] op = "fract" -> AFract(x)))) IN
                  IF f = {} THEN {} ELSE {<<op, x, f>>}
                  : op \in {"floor", "ceil", "trunc", "round", "fract"} }
          : x \in {a, ANeg(a)} }

\* C09/C01: the wide-integer From macro for an unsigned and a signed type of WBITS bits, every value
WideOK(n, x) == /\ Valid(x)
                /\ (SigBits(FromInt(IF n < 0 THEN -n ELSE n)) <= 2 * P => DCmp(Value(x), DInt(n)) = 0)
                /\ DCmp(DScale2(DAbs(DSub(Value(x), DInt(n))), 2 * P), DAbs(DInt(n))) <= 0
CheckWide(n) ==
  (IF WideOK(n, AFromWide(n, 0, P2(WBITS) - 1)) THEN {} ELSE {<<"from_unsigned", n, AFromWide(n, 0, P2(WBITS) - 1)>>})
  \cup (LET m == n - P2(WBITS - 1) IN
        IF WideOK(m, AFromWide(m, -P2(WBITS - 1), P2(WBITS - 1) - 1)) THEN {}
        ELSE {<<"from_signed", m, AFromWide(m, -P2(WBITS - 1), P2(WBITS - 1) - 1)>>})

\* C09: TryFrom<TwoFloat> for an unsigned and a signed integer type of WBITS bits (the wide macro when WBITS > P,
\* the narrow one otherwise) on every valid x of a window reaching beyond the types' ranges, both signs:
\* Ok(t) with t = trunc(x) exactly when t lies in the type's range, no intermediate integer overflow
ToIntOK(x, lo, hi, res) ==
  LET t == DTrunc(Value(x))
      inr == DCmp(t, DInt(lo)) >= 0 /\ DCmp(t, DInt(hi)) <= 0
  IN /\ res.ok = inr
     /\ ~res.ovf
     /\ (inr => DCmp(DInt(res.n), t) = 0)
CheckToInt(a) ==
  UNION { LET ulo == 0   uhi == P2(WBITS) - 1   slo == -P2(WBITS - 1)   shi == P2(WBITS - 1) - 1
              ru == IF WBITS > P THEN AToWide(x, ulo, uhi) ELSE AToNarrow(x, ulo, uhi)
              rs == IF WBITS > P THEN AToWide(x, slo, shi) ELSE AToNarrow(x, slo, shi)
          IN (IF ToIntOK(x, ulo, uhi, ru) THEN {} ELSE {<<"try_into_unsigned", x, ru>>})
             \cup (IF ToIntOK(x, slo, shi, rs) THEN {} ELSE {<<"try_into_signed", x, rs>>})
          : x \in {a, ANeg(a)} }

\* C06: lexicographic comparison of normalised pairs is the comparison of exact values
LexCmp(x, y) == LET c == FCmp(x.hi, y.hi) IN IF c = 0 THEN FCmp(x.lo, y.lo) ELSE c
CheckCmp(a) ==
  { <<"lex_compare", a, b>> : b \in { y \in BSet : LexCmp(a, y) # DCmp(Value(a), Value(y)) \/ LexCmp(y, a) # DCmp(Value(y), Value(a)) } }
  \cup (IF Valid(AAbs(a)) /\ Valid(AAbs(ANeg(a))) /\ DCmp(Value(AAbs(ANeg(a))), DAbs(Value(a))) = 0 THEN {} ELSE {<<"abs", a>>})

\* C14: the exp reduction (both the current and the pinned way of choosing y), all valid x of the window
CheckExpFlow(x) == UNION { ExpFlowBad(v, ExpSplitY(v)) : v \in {x, ANeg(x)} }
CheckExpFlowOld(x) == UNION { ExpFlowBad(v, ExpSplitYOld(v)) : v \in {x, ANeg(x)} }
\* C16: quadrant selection
CheckQuadrant(x) == UNION { QuadrantBad(v) : v \in {x, ANeg(x)} }

CheckAtanFlow(x) == UNION { AtanFlowBad(v) : v \in {x, ANeg(x)} }
CheckPowfFlow(x) == UNION { PowfFlowBad(v) : v \in {x, ANeg(x)} }
\* C14/C01: exp2's power-of-two scaling of every normalised pair in [1/2, 2) by every k the reduction can produce,
\* and the whole flow (range switch, reduction, ideal kernel, scaling) on every valid x of the window
CheckExp2Scale(r1, old) == UNION { Exp2ScaleBad(r1, k, IF old THEN Exp2ScaleOld(r1, k) ELSE Exp2Scale(r1, k)) : k \in QMIN..EMAX }
CheckAsinFlow(x) == UNION { AsinFlowBad(v) : v \in {x, ANeg(x)} }
CheckExp2Flow(x) == UNION { Exp2FlowBad(v) : v \in {x, ANeg(x)} }

\* C13: sqrt (Karp-Markstein step with one double-word correction) on every valid positive x of the window:
\* normalised, and within 32 * 2^-2P relative (the constant the property states at binary64)
RelBoundSq(r, v, c) ==          \* (1 - c u^2)^2 v <= r^2 <= (1 + c u^2)^2 v
  LET lo == DSub(DOne, [neg |-> FALSE, mag |-> FromInt(c), e |-> -U2])
      hi == DAdd(DOne, [neg |-> FALSE, mag |-> FromInt(c), e |-> -U2])
  IN DCmp(DMul(DSqr(lo), v), DSqr(r)) <= 0 /\ DCmp(DSqr(r), DMul(DSqr(hi), v)) <= 0
CheckSqrt(x) ==
  LET r == ASqrt(x) IN
  (IF Normalised(r) /\ Valid(r) THEN {} ELSE {<<"sqrt_not_normalised", x, r>>})
  \cup (IF Valid(r) /\ ~Value(r).neg /\ RelBoundSq(Value(r), Value(x), 32) THEN {} ELSE {<<"sqrt_bound", x, r>>})
  \cup (IF ASqrt(ANeg(x)).hi.k = "n" THEN {} ELSE {<<"sqrt_negative_valid", x>>})
\* C13: cbrt from EVERY seed word within one ulp of the true cube root of the high word (libm::cbrt is only
\* faithful), both signs: normalised, same sign, within 16 * 2^-2P relative
DCube3(d) == DMul(d, DSqr(d))
WPred(w) == IF w.mag = FromInt(P2(P - 1)) THEN [w EXCEPT !.mag = FromInt(P2(P) - 1), !.e = @ - 1] ELSE [w EXCEPT !.mag = FromInt(ToInt(@) - 1)]
WSucc(w) == IF w.mag = FromInt(P2(P) - 1) THEN [w EXCEPT !.mag = FromInt(P2(P - 1)), !.e = @ + 1] ELSE [w EXCEPT !.mag = FromInt(ToInt(@) + 1)]
CbrtSeeds(h) ==     \* positive h: words w with pred(w)^3 < h < succ(w)^3
  LET e3 == (h.e + P - 1) \div 3 - (P - 1) IN
  { w \in { u \in WordsIn(e3 - 2, e3 + 2) : ~u.neg } :
      DCmp(DCube3(D(WPred(w))), D(h)) < 0 /\ DCmp(D(h), DCube3(D(WSucc(w)))) < 0 }
RelBoundCube(r, v, c) ==
  LET lo == DSub(DOne, [neg |-> FALSE, mag |-> FromInt(c), e |-> -U2])
      hi == DAdd(DOne, [neg |-> FALSE, mag |-> FromInt(c), e |-> -U2])
  IN DCmpAbs(DMul(DCube3(lo), v), DCube3(r)) <= 0 /\ DCmpAbs(DCube3(r), DMul(DCube3(hi), v)) <= 0
CheckCbrt(x) ==
  LET seeds == CbrtSeeds(x.hi) IN
  (IF seeds = {} THEN {<<"cbrt_no_seed", x>>} ELSE {})
  \cup UNION { UNION { LET sd == IF sg THEN [w EXCEPT !.neg = TRUE] ELSE w
                          xx == IF sg THEN ANeg(x) ELSE x
                          r == ACbrtFrom(xx, sd)
                      IN (IF Valid(r) /\ Normalised(r) THEN {} ELSE {<<"cbrt_not_normalised", xx, sd, r>>})
                         \cup (IF Valid(r) /\ Value(r).neg = sg /\ RelBoundCube(Value(r), Value(xx), 16) THEN {} ELSE {<<"cbrt_bound", xx, sd, r>>})
                      : sg \in BOOLEAN }
              : w \in seeds }

\* C13: the binary powering loop of powi for n = 2..NPOW, both signs of x: normalised, within (6n + 16) 2^-2P,
\* sign of an odd power; negative exponents are the reciprocal of the positive power (transcribed as such)
NPOW == 12
RECURSIVE DPowN(_, _)
DPowN(v, n) == IF n = 0 THEN DOne ELSE DMul(v, DPowN(v, n - 1))
CheckPowi(a) ==
  UNION { UNION { LET r == APowiLoop(x, FromInt(n))
                      t == DPowN(Value(x), n)
                      tol == DMul([neg |-> FALSE, mag |-> FromInt(6 * n + 16), e |-> -U2], DAbs(t))
                  IN (IF Normalised(r) /\ Valid(r) THEN {} ELSE {<<"powi_not_normalised", x, n, r>>})
                     \cup (IF Valid(r) /\ DCmpAbs(DSub(Value(r), t), tol) <= 0 THEN {} ELSE {<<"powi_bound", x, n, r>>})
                     \cup (LET q == ARecip(r) IN
                           IF Valid(q) /\ Normalised(q)
                              /\ DCmpAbs(DSub(DMul(Value(q), t), DOne), [neg |-> FALSE, mag |-> FromInt(6 * n + 16), e |-> -U2]) <= 0
                           THEN {} ELSE {<<"powi_negative_bound", x, n, q>>})
                  : n \in 2..NPOW }
          : x \in {a, ANeg(a)} }

Items ==
  CASE MODE \in {"addsub", "mul", "div", "rem", "new", "cmp", "euclid", "powi"} -> SliceOf(SeqOfSet(ASet))
    [] MODE \in {"expflow", "expflow_old", "quadrant", "atanflow", "powfflow", "exp2flow", "sqrt", "cbrt", "asinflow", "toint"} -> SliceOf(SeqOfSet(ValidWithHi({ w \in WordsIn(E0 - GAP, E0 + GAP) : ~w.neg })))
    [] MODE \in {"exp2scale", "exp2scale_old"} -> SliceOf(SeqOfSet(ValidWithHi({ w \in WordsIn(-P, -P + 1) : ~w.neg })))
    [] MODE = "frac" -> SliceOf(SeqOfSet(ValidWithHi({ w \in WordsIn(E0 - GAP, E0 + GAP) : ~w.neg })))
    [] MODE = "nov" -> SliceOf(SeqOfSet(AllWords))
    [] MODE = "wide" -> SliceOf([k \in 1..P2(WBITS) |-> k - 1])
ItemSeq == TLCEval(Items)

CheckItem(it) ==
  CASE MODE = "addsub" -> CheckAddSub(it)
    [] MODE = "mul" -> CheckMul(it)
    [] MODE = "div" -> CheckDiv(it)
    [] MODE = "rem" -> CheckRem(it)
    [] MODE = "euclid" -> CheckEuclid(it)
    [] MODE = "new" -> CheckNew(it)
    [] MODE = "nov" -> CheckNov(it)
    [] MODE = "frac" -> CheckFrac(it)
    [] MODE = "wide" -> CheckWide(it)
    [] MODE = "cmp" -> CheckCmp(it)
    [] MODE = "expflow" -> CheckExpFlow(it)
    [] MODE = "expflow_old" -> CheckExpFlowOld(it)
    [] MODE = "quadrant" -> CheckQuadrant(it)
    [] MODE = "atanflow" -> CheckAtanFlow(it)
    [] MODE = "powfflow" -> CheckPowfFlow(it)
    [] MODE = "exp2scale" -> CheckExp2Scale(it, FALSE)
    [] MODE = "exp2scale_old" -> CheckExp2Scale(it, TRUE)
    [] MODE = "exp2flow" -> CheckExp2Flow(it)
    [] MODE = "asinflow" -> CheckAsinFlow(it)
    [] MODE = "toint" -> CheckToInt(it)
    [] MODE = "sqrt" -> CheckSqrt(it)
    [] MODE = "cbrt" -> CheckCbrt(it)
    [] MODE = "powi" -> CheckPowi(it)

Init == i = 0 /\ bad = {} /\ cnt = 0
Next == /\ i < Len(ItemSeq)
        /\ i' = i + 1
        /\ bad' = CheckItem(ItemSeq[i + 1])
        /\ cnt' = cnt + 1
Spec == Init /\ [][Next]_vars
NoBad == bad = {}
\* the run is not vacuous: the slice has items and the sets are inhabited
Sizes == <<Len(ItemSeq), IF MODE \in {"addsub", "mul", "div", "rem", "cmp", "euclid"} THEN Cardinality(BSet) ELSE 0,
           IF MODE \in {"addsub", "mul", "div", "new", "rem"} THEN Cardinality(BWords) ELSE 0>>
Report == PrintT(<<"MC_SIZES", MODE, Sizes>>) /\ Len(ItemSeq) > 0
=============================================================================
