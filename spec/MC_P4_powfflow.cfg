SPECIFICATION Spec
CONSTANTS
  P = 4
  EMIN <- EMIN_WIDE
  EMAX <- EMAX_WIDE
  MODE = "powfflow"
  E0 <- E0_ZERO
  GAP = 11
  LOW = 12
  WBITS = 8
INVARIANT NoBad
POSTCONDITION Report
CHECK_DEADLOCK FALSE
