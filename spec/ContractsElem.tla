---------------------------- MODULE ContractsElem ----------------------------
(***************************************************************************)
(* Contracts for C12-C18: constants and angle conversions, roots and       *)
(* integer powers, the exponential, logarithmic, trigonometric and         *)
(* hyperbolic families.  The oracle is the ball arithmetic of Elementary:  *)
(* every accuracy clause is decided three-valued ("yes" / "no" /           *)
(* "undecided"); only "no" is a violation, "undecided" is counted.         *)
(* Forward functions (exp, sin, ...) are enclosed directly; logarithms are *)
(* enclosed by one rigorous Newton step from the claimed result; inverse   *)
(* trigonometric / hyperbolic functions are checked by monotone inversion  *)
(* through the forward function.                                           *)
(***************************************************************************)
EXTENDS ContractsMisc, RoundDD

VB(x) == BExact(Value(x))
Undecided(p, c) == {<<"undecided", p \o ":" \o c>>}
Verdict(p, c, v3) == IF v3 = "no" THEN Fail(p, c) ELSE IF v3 = "undecided" THEN Undecided(p, c) ELSE {}
Not3(a) == IF a = "yes" THEN "no" ELSE IF a = "no" THEN "yes" ELSE a
Geq3(x, y) == Leq3(y, x)
\* |rv - F| <= Tol   (rv exact dyadic, F and Tol balls)
Within3(rv, F, Tol) == Leq3(BAbs(BSub(F, BExact(rv))), Tol)
TolRel(F, k) == BScale2(BAbs(F), -k)                    \* 2^-k |F|
BPow2(k) == BExact(DPow2(k))
FinTF(x) == x.hi.k = "f" /\ x.lo.k = "f"
\* value comparisons of an exact dyadic against small rationals / powers of two
DLeqInt(v, n) == DCmp(v, DInt(n)) <= 0
DGeqInt(v, n) == DCmp(v, DInt(n)) >= 0
AbsLeqPow2(v, k) == DCmpAbs(v, DPow2(k)) <= 0
AbsGeqPow2(v, k) == DCmpAbs(v, DPow2(k)) >= 0
ExactValue(r, d) == r.t = "tf" /\ Valid(r.x) /\ DCmp(Value(r.x), d) = 0
C01In(x, r) == IF InDom(x, -1000, 1000) THEN C01Of(r) ELSE {}
\* a ball of relative radius 2^-k around the exact dyadic d (tolerances that mention the unknown
\* true value are evaluated with the claimed value and this slack, soundly in both directions)
Fuzzy(d, k) == IF d.mag = <<>> THEN BExact(d) ELSE BallOf(d, RScale(RAbsD(d), -k))

\* A tolerance known only as a ball (it mentions the unknown true value) and a test that is monotone
\* in the tolerance (a larger tolerance is easier to meet): "yes" if the test passes at the lower end,
\* "no" if it fails at the upper end.  Evaluating at exact end points avoids the dependency problem
\* of ball arithmetic.
DownD(d) == TopLimbs(d, 4)
UpD(d) == LET t == TopLimbs(d, 4) IN IF t = d THEN d ELSE [t EXCEPT !.mag = Add(@, <<1>>)]
Decide(tol, T(_)) ==
  LET lo == DownD(BLoD(tol))   hi == UpD(BHiD(tol)) IN
  IF lo.mag # <<>> /\ ~lo.neg /\ T(lo) = "yes" THEN "yes"
  ELSE IF T(hi) = "no" THEN "no" ELSE "undecided"

\* ==========================================================================
\* C13  roots and integer powers
OnePlusEps(num, k) == DAdd(DOne, [neg |-> FALSE, mag |-> num, e |-> -k])      \* 1 + num 2^-k
OneMinusEps(num, k) == DSub(DOne, [neg |-> FALSE, mag |-> num, e |-> -k])
DCube(x) == DMul(x, DSqr(x))

SqrtFails(x, r) ==
  IF ~Valid(x) THEN {Skip}
  ELSE IF r.t # "tf" THEN Fail("C13", "sqrt_panics")
  ELSE LET v == Value(x) IN
       IF v.mag = <<>> THEN Chk(ExactValue(r, DZero), "C13", "sqrt_zero")
       ELSE IF v.neg THEN Chk(~Valid(r.x), "C13", "sqrt_negative_valid")
       ELSE IF ~WInRange(x.hi, -900, 900) THEN {Skip}
       ELSE C01Of(r) \cup
            Chk(Valid(r.x) /\ ~Value(r.x).neg
                /\ DCmp(DMul(DSqr(OneMinusEps(<<32>>, 106)), v), DSqr(Value(r.x))) <= 0
                /\ DCmp(DSqr(Value(r.x)), DMul(DSqr(OnePlusEps(<<32>>, 106)), v)) <= 0, "C13", "sqrt_bound")

CbrtFails(x, r) ==
  IF ~Valid(x) THEN {Skip}
  ELSE IF r.t # "tf" THEN Fail("C13", "cbrt_panics")
  ELSE LET v == Value(x) IN
       IF v.mag = <<>> THEN Chk(ExactValue(r, DZero), "C13", "cbrt_zero")
       ELSE IF ~WInRange(x.hi, -900, 900) THEN {Skip}
       ELSE C01Of(r) \cup
            Chk(Valid(r.x) /\ Value(r.x).neg = v.neg
                /\ DCmpAbs(DMul(DCube(OneMinusEps(<<16>>, 106)), v), DCube(Value(r.x))) <= 0
                /\ DCmpAbs(DCube(Value(r.x)), DMul(DCube(OnePlusEps(<<16>>, 106)), v)) <= 0, "C13", "cbrt_bound")

HypotFails(x, y, r) ==
  IF ~(InDomNZ(x, -400, 400) /\ InDomNZ(y, -400, 400)) THEN {Skip}
  ELSE IF r.t # "tf" THEN Fail("C13", "hypot_panics")
  ELSE LET t == DAdd(DSqr(Value(x)), DSqr(Value(y))) IN
       C01Of(r) \cup
       Chk(Valid(r.x) /\ ~Value(r.x).neg
           /\ DCmp(DMul(DSqr(OneMinusEps(<<48>>, 106)), t), DSqr(Value(r.x))) <= 0
           /\ DCmp(DSqr(Value(r.x)), DMul(DSqr(OnePlusEps(<<48>>, 106)), t)) <= 0, "C13", "hypot_bound")

\* x^n for a BigNat n >= 1 by binary powering in ball arithmetic (most significant bit first)
\* (saturating: once the magnitude leaves 2^+-100000 the powering stops and `sat` is set, so that
\* exponents stay far inside TLC's 32-bit integers)
BPowNat(xb, n) ==
  LET L == BitLen(n) IN
  FoldLeft(LAMBDA acc, i :
             IF acc.sat \/ acc.b.m.mag = <<>> THEN acc
             ELSE LET s == BSqr(acc.b)
                      t == IF TestBit(n, i) THEN BMul(s, xb) ELSE s
                      me == MagExp(t.m)
                  IN [b |-> t, sat |-> me > 100000 \/ me < -100000],
           [b |-> xb, sat |-> FALSE], [j \in 1..(L - 1) |-> L - 1 - j])

PowiFails(x, n, r) ==
  PowiStructFails(x, n, r) \cup
  (IF ~Valid(x) \/ r.t # "tf" \/ IsIntZero(n) \/ IsIntOne(n) \/ IsZeroTF(x) \/ ~WInRange(x.hi, -1000, 1000) THEN {}
   ELSE LET PS == BPowNat(VB(x), n.mag)
            PW == PS.b
            he == BAbsHiExp(PW)
            inrange == ~PS.sat /\ PW.m.mag # <<>> /\ RelTight(PW, 120) /\ he <= 900 /\ he >= -898
            tol == [neg |-> FALSE, mag |-> Add(MulLimb(n.mag, 6), <<16>>), e |-> -106]      \* (6|n| + 16) 2^-106
        IN IF ~inrange THEN {}
           ELSE C01Of(r) \cup
                (IF ~Valid(r.x) THEN Fail("C13", "powi_not_valid")
                 ELSE IF ~n.neg THEN Verdict("C13", "powi_bound", Within3(Value(r.x), PW, BMulD(BAbs(PW), tol)))
                 ELSE Verdict("C13", "powi_bound", Within3(DOne, BMulD(PW, Value(r.x)), BExact(tol)))))

\* ==========================================================================
\* C14  exponential family
ExpFails(x, r) ==
  IF ~Valid(x) THEN {Skip}
  ELSE IF r.t # "tf" THEN Fail("C14", "exp_panics")
  ELSE LET v == Value(x) IN
       C01In(x, r) \cup
       (IF v.mag = <<>> THEN Chk(ExactValue(r, DOne), "C14", "exp_zero_is_one")
        ELSE IF DLeqInt(v, -750) THEN Chk(ExactValue(r, DZero), "C14", "exp_underflow_not_zero")
        ELSE IF DGeqInt(v, 710) THEN Chk(r.x.hi.k # "f", "C14", "exp_overflow_finite")
        ELSE IF DGeqInt(v, -600) /\ DLeqInt(v, 700)
             THEN IF ~Valid(r.x) THEN Fail("C14", "exp_not_valid")
                  ELSE LET E == BExp(VB(x)) IN Verdict("C14", "exp_bound", Within3(Value(r.x), E, TolRel(E, 100)))
        ELSE {})

Exp2Fails(x, r) ==
  IF ~Valid(x) THEN {Skip}
  ELSE IF r.t # "tf" THEN Fail("C14", "exp2_panics")
  ELSE LET v == Value(x) IN
       C01In(x, r) \cup
       (IF DLeqInt(v, -1080) THEN Chk(ExactValue(r, DZero), "C14", "exp2_underflow_not_zero")
        ELSE IF DGeqInt(v, 1024) THEN Chk(r.x.hi.k # "f", "C14", "exp2_overflow_finite")
        ELSE IF DIsInt(v) /\ DGeqInt(v, -1022) /\ DLeqInt(v, 1022)
             THEN Chk(ExactValue(r, DPow2(DToInt(v))), "C14", "exp2_integer_not_exact")
        ELSE IF DGeqInt(v, -900) /\ DLeqInt(v, 1000)
             THEN IF ~Valid(r.x) THEN Fail("C14", "exp2_not_valid")
                  ELSE LET E == BExp(BMul(VB(x), Ln2B)) IN Verdict("C14", "exp2_bound", Within3(Value(r.x), E, TolRel(E, 93)))
        ELSE {})

\* x < -7/10, x > 41/100 decided exactly
LtRat(v, p, q) == DCmp(DMul(v, DInt(q)), DInt(p)) < 0
GtRat(v, p, q) == DCmp(DMul(v, DInt(q)), DInt(p)) > 0
ExpM1Fails(x, r) ==
  IF ~Valid(x) THEN {Skip}
  ELSE IF r.t # "tf" THEN Fail("C14", "exp_m1_panics")
  ELSE LET v == Value(x) IN
       C01In(x, r) \cup
       (IF v.mag = <<>> THEN Chk(ExactValue(r, DZero), "C14", "exp_m1_zero")
        ELSE IF ~(AbsGeqPow2(v, -1000) /\ DLeqInt(v, 700)) THEN {}
        ELSE IF ~Valid(r.x) THEN Fail("C14", "exp_m1_not_valid")
        ELSE LET k == IF AbsLeqPow2(v, -8) \/ LtRat(v, -7, 10) \/ GtRat(v, 41, 100) THEN 100 ELSE 45
                 F == IF DLeqInt(v, -800) THEN BallOf(DInt(-1), RPow2(-1000)) ELSE BExpm1(VB(x))
             IN Verdict("C14", "exp_m1_bound", Within3(Value(r.x), F, TolRel(F, k))))

\* ---- rigorous logarithm from a hint ----------------------------------------------------
\* ln(1 + rho) for a ball rho with |rho| < 2^-20:  rho - rho^2/2 +- |rho|^3
Ln1pTiny(rho) ==
  LET r2 == BSqr(rho)
      a == BSub(rho, BScale2(r2, -1))
      e3 == 3 * BAbsHiExp(rho)
  IN [a EXCEPT !.r = RAdd(@, RPow2(e3))]
\* enclosure of ln(xb) for a positive ball xb given any dyadic hint h; [ok, far, b]:
\*   ok  = b encloses ln x;  far = the hint is certainly off by more than 2^-22
LnStep(xb, h) ==
  IF h.mag # <<>> /\ DMsb(h) >= 11 THEN [ok |-> FALSE, far |-> TRUE, b |-> Hopeless] ELSE     \* |ln| < 745 in binary64
  LET E == BExp(BExact(h))
      rho == BDiv(BSub(xb, E), E)
      small == BAbsHiExp(rho) <= -20
      far == CertGtD(BAbs(rho), DPow2(-21))
  IN [ok |-> small, far |-> far, b |-> IF small THEN BAdd(BExact(h), Ln1pTiny(rho)) ELSE Hopeless]
\* two steps when the first one is not sharp yet (the hint may be a mere f64 approximation)
LnFrom(xb, h) ==
  LET s1 == LnStep(xb, h) IN
  IF ~s1.ok \/ RelTight(s1.b, 140) \/ (s1.b.m.mag = <<>>) \/ RExp(s1.b.r) <= -160 THEN s1
  ELSE LnStep(xb, s1.b.m)
\* the same for ln(1 + v) with relative accuracy for tiny v, hint h for ln(1+v)
Ln1pStep(vb, h) ==
  IF h.mag # <<>> /\ DMsb(h) >= 11 THEN [ok |-> FALSE, far |-> TRUE, b |-> Hopeless] ELSE
  LET M == BExpm1(BExact(h))
      rho == BDiv(BSub(vb, M), BAdd(BInt(1), M))
      small == BAbsHiExp(rho) <= -20
      far == CertGtD(BAbs(rho), DPow2(-21))
  IN [ok |-> small, far |-> far, b |-> IF small THEN BAdd(BExact(h), Ln1pTiny(rho)) ELSE Hopeless]

InvLn2B == BRecip(Ln2B)
InvLn10B == BRecip(Ln10B)

PowfFails(x, y, hint, r) ==
  IF ~(Valid(x) /\ Valid(y)) THEN {Skip}
  ELSE IF r.t # "tf" THEN Fail("C14", "powf_panics")
  ELSE LET vx == Value(x)   vy == Value(y) IN
       IF vx.mag = <<>> /\ vy.mag = <<>> THEN Chk(~Valid(r.x), "C14", "zero_powf_zero_valid")
       ELSE IF vx.mag = <<>> THEN (IF ~vy.neg THEN Chk(ExactValue(r, DZero), "C14", "zero_powf_positive") ELSE {})
       ELSE IF vy.mag = <<>> THEN Chk(ExactValue(r, DOne), "C14", "powf_zero_exponent")
       ELSE IF vx.neg /\ ~DIsInt(vy) THEN Chk(~Valid(r.x), "C14", "negative_base_fractional_exponent_valid")
       \* outside the accuracy range only the sign rule is claimed: +-|x|^y with the sign given by the parity of
       \* the integer y (decided on results that carry a sign: non-zero finite or infinite high word)
       ELSE IF ~(AbsGeqPow2(vx, -30) /\ AbsLeqPow2(vx, 30) /\ DCmpAbs(vy, DInt(10)) <= 0)
            THEN (IF vx.neg /\ (r.x.hi.k = "i" \/ (r.x.hi.k = "f" /\ r.x.hi.mag # <<>>))
                  THEN Chk(r.x.hi.neg = DIntIsOdd(vy), "C14", "powf_sign") ELSE {})
       ELSE IF ~Valid(hint) THEN Undecided("C14", "powf_hint")
       ELSE LET L == LnFrom(BExact(DAbs(vx)), Value(hint)) IN
            IF ~L.ok THEN Undecided("C14", "powf_hint")
            ELSE IF ~Valid(r.x) THEN Fail("C14", "powf_not_valid")
            ELSE LET yl == BMul(BExact(vy), L.b)
                     F == BExp(yl)
                     tol == BMul(TolRel(F, 100), BAdd(BInt(1), BAbs(yl)))
                     neg == vx.neg /\ DIntIsOdd(vy)
                 IN C01Of(r)
                    \cup Chk(Value(r.x).neg = neg, "C14", "powf_sign")
                    \cup Verdict("C14", "powf_bound", Within3(DAbs(Value(r.x)), F, tol))

\* ==========================================================================
\* C15  logarithms
LogDomain(x) == Valid(x) /\ WInRange(x.hi, -1000, 960)
Pos(x) == x.hi.mag # <<>> /\ ~x.hi.neg

\* which = "ln" | "log2" | "log10"
LogFails(which, x, r) ==
  IF ~LogDomain(x) THEN {Skip}
  ELSE IF r.t # "tf" THEN Fail("C15", which \o "_panics")
  ELSE LET v == Value(x) IN
       IF ~Pos(x) THEN Chk(~Valid(r.x), "C15", which \o "_nonpositive_valid")
       ELSE IF DCmp(v, DOne) = 0 THEN Chk(ExactValue(r, DZero), "C15", which \o "_one_not_zero")
       ELSE IF which = "log2" /\ IsPow2D(v) /\ DMsb(v) >= -1000 /\ DMsb(v) <= 960
            THEN Chk(ExactValue(r, DInt(DMsb(v))), "C15", "log2_power_of_two_not_exact")
       ELSE IF ~Valid(r.x) THEN Fail("C15", which \o "_not_valid")
       ELSE LET rv == Value(r.x)
                scale == IF which = "ln" THEN BInt(1) ELSE IF which = "log2" THEN Ln2B ELSE Ln10B
                inv == IF which = "ln" THEN BInt(1) ELSE IF which = "log2" THEN InvLn2B ELSE InvLn10B
                hint == TopLimbs(DNorm(BMul(BExact(rv), scale).m), 9)
                L == LnFrom(BExact(v), hint)
            IN C01Of(r) \cup
               (IF L.far THEN Fail("C15", which \o "_bound")
                ELSE IF ~L.ok THEN Undecided("C15", which \o "_bound")
                ELSE LET F == IF which = "ln" THEN L.b ELSE BMul(L.b, inv)
                         tol == IF which = "ln" THEN BScale2(BAdd(BInt(1), BAbs(F)), -101)
                                ELSE IF which = "log2" THEN BAdd(TolRel(F, 101), BPow2(-92))
                                ELSE BScale2(BAdd(BInt(1), BAbs(F)), -100)
                     IN Verdict("C15", which \o "_bound", Within3(rv, F, tol)))

Ln1pFails(x, r) ==
  IF ~Valid(x) THEN {Skip}
  ELSE IF r.t # "tf" THEN Fail("C15", "ln_1p_panics")
  ELSE LET v == Value(x) IN
       IF v.mag = <<>> THEN Chk(ExactValue(r, DZero), "C15", "ln_1p_zero")
       ELSE IF DLeqInt(v, -1) THEN Chk(~Valid(r.x), "C15", "ln_1p_below_minus_one_valid")
       ELSE IF ~(AbsGeqPow2(v, -1000) /\ WInRange(x.hi, -1000, 960)) THEN {Skip}
       ELSE IF ~Valid(r.x) THEN Fail("C15", "ln_1p_not_valid")
       ELSE LET rv == Value(r.x)
                L == Ln1pStep(VB(x), TopLimbs(DNorm(rv), 9))
                k == IF AbsLeqPow2(v, -8) \/ DCmp(DScale2(v, 2), DInt(3)) >= 0 THEN 100 ELSE 45
            IN C01Of(r) \cup
               (IF L.far THEN Fail("C15", "ln_1p_bound")
                ELSE IF ~L.ok THEN Undecided("C15", "ln_1p_bound")
                ELSE Verdict("C15", "ln_1p_bound", Within3(rv, L.b, TolRel(L.b, k))))

\* ==========================================================================
\* C16  sin, cos, sin_cos, tan
TrigDomain(x) == Valid(x) /\ AbsLeqPow2(Value(x), 20)
NonFiniteArg(x) == x.hi.k # "f" \/ x.lo.k # "f"

SinBound(v, rv, sc) ==
  Verdict("C16", "sin_abs_bound", Within3(rv, sc.s, BPow2(-66)))
  \cup (IF CertLeq(BAbs(BExact(v)), BScale2(PiB, -2))
        THEN Verdict("C16", "sin_rel_bound", Within3(rv, sc.s, TolRel(sc.s, 64))) ELSE {})
CosBound(rv, sc) == Verdict("C16", "cos_abs_bound", Within3(rv, sc.c, BPow2(-66)))

TrigFails(op, x, r) ==
  IF NonFiniteArg(x) THEN (IF r.t = "tf" THEN Chk(~Valid(r.x), "C16", "invalid_argument_valid_result")
                           ELSE IF r.t = "tf2" THEN Chk(~Valid(r.x) /\ ~Valid(r.y), "C16", "invalid_argument_valid_result")
                           ELSE Fail("C16", op \o "_panics"))
  ELSE IF ~TrigDomain(x) THEN {Skip}
  ELSE IF r.t = "panic" THEN Fail("C16", op \o "_panics")
  ELSE LET v == Value(x) IN
       C01Of(r) \cup
       (IF v.mag = <<>>
        THEN (CASE op = "sin" \/ op = "tan" -> Chk(ExactValue(r, DZero), "C16", op \o "_zero")
                [] op = "cos" -> Chk(ExactValue(r, DOne), "C16", "cos_zero")
                [] op = "sin_cos" -> Chk(r.t = "tf2" /\ Valid(r.x) /\ Valid(r.y) /\ DCmp(Value(r.x), DZero) = 0
                                         /\ DCmp(Value(r.y), DOne) = 0, "C16", "sin_cos_zero"))
        ELSE IF ~(IF r.t = "tf2" THEN Valid(r.x) /\ Valid(r.y) ELSE Valid(r.x)) THEN Fail("C16", op \o "_not_valid")
        ELSE LET sc == BSinCos(VB(x)) IN
             CASE op = "sin" -> SinBound(v, Value(r.x), sc)
               [] op = "cos" -> CosBound(Value(r.x), sc)
               [] op = "sin_cos" -> SinBound(v, Value(r.x), sc) \cup CosBound(Value(r.y), sc)
               [] op = "tan" ->
                    \* |r - S/C| <= 2^-50 max(|S/C|, 2^-30) + 2^-80 (1 + (S/C)^2), multiplied by C^2 (S^2 + C^2 = 1)
                    LET rv == Value(r.x)
                        C2 == BSqr(sc.c)
                        lhs == BMul(BAbs(BSub(BMulD(sc.c, rv), sc.s)), BAbs(sc.c))
                        sc2 == BAbs(BMul(sc.s, sc.c))
                        t1a == BAdd(BScale2(sc2, -50), BPow2(-80))
                        t1b == BAdd(BScale2(C2, -80), BPow2(-80))
                    IN Verdict("C16", "tan_bound", Or3(Leq3(lhs, t1a), Leq3(lhs, t1b))))

\* ==========================================================================
\* C17  asin, acos, atan, atan2
\* sin and cos of rv + dl for a tiny ball dl (|dl| < 2^-40) from S = sin rv, C = cos rv
\* sin d = d - d^3/6 +- |d|^5 ;  cos d = 1 - d^2/2 +- d^4
SinD(dl) == LET d3 == BMul(dl, BSqr(dl)) IN [BSub(dl, BDivInt(d3, 6)) EXCEPT !.r = RAdd(@, RPow2(5 * BAbsHiExp(dl)))]
CosD(dl) == [BSub(BInt(1), BScale2(BSqr(dl), -1)) EXCEPT !.r = RAdd(@, RPow2(4 * BAbsHiExp(dl)))]
SinShift(sc, dl) == BAdd(BMul(sc.s, CosD(dl)), BMul(sc.c, SinD(dl)))
CosShift(sc, dl) == BSub(BMul(sc.c, CosD(dl)), BMul(sc.s, SinD(dl)))

AsinFails(x, r) ==
  IF ~Valid(x) THEN {Skip}
  ELSE IF r.t # "tf" THEN Fail("C17", "asin_panics")
  ELSE LET v == Value(x) IN
       IF DCmpAbs(v, DOne) > 0 THEN Chk(~Valid(r.x), "C17", "asin_out_of_domain_valid")
       ELSE IF v.mag = <<>> THEN Chk(ExactValue(r, DZero), "C17", "asin_zero")
       ELSE IF ~Valid(r.x) THEN Fail("C17", "asin_not_valid")
       ELSE IF ~AbsLeqPow2(Value(r.x), 2) THEN Fail("C17", "asin_bound")
       ELSE LET rv == Value(r.x)
                rb == BExact(rv)
                vb == BExact(v)
            IN C01Of(r) \cup
               (IF DCmpAbs(v, DOne) = 0
                THEN Verdict("C17", "asin_one", Within3(rv, IF v.neg THEN BNeg(PiHalfB) ELSE PiHalfB, BPow2(-100)))
                ELSE LET relt == BScale2(BAbs(Fuzzy(rv, 40)), -43)
                         dl == IF CertLeq(relt, BPow2(-45)) THEN relt ELSE IF CertLeq(BPow2(-45), relt) THEN BPow2(-45)
                               ELSE BallOf(DPow2(-45), RPow2(-80))
                         sc == BSinCos(rb)
                         T(d) == LET db == BExact(d)
                                     up == BAdd(rb, db)
                                     dn == BSub(rb, db)
                                     upper == Or3(Geq3(up, PiHalfB), And3(Geq3(up, BNeg(PiHalfB)), Leq3(vb, SinShift(sc, db))))
                                     lower == Or3(Leq3(dn, BNeg(PiHalfB)), And3(Leq3(dn, PiHalfB), Leq3(SinShift(sc, BNeg(db)), vb)))
                                 IN And3(upper, lower)
                     IN Verdict("C17", "asin_bound", Decide(dl, T)))

AcosFails(x, r) ==
  IF ~Valid(x) THEN {Skip}
  ELSE IF r.t # "tf" THEN Fail("C17", "acos_panics")
  ELSE LET v == Value(x) IN
       IF DCmpAbs(v, DOne) > 0 THEN Chk(~Valid(r.x), "C17", "acos_out_of_domain_valid")
       ELSE IF DCmp(v, DOne) = 0 THEN Chk(ExactValue(r, DZero), "C17", "acos_one")
       ELSE IF ~Valid(r.x) THEN Fail("C17", "acos_not_valid")
       ELSE IF ~AbsLeqPow2(Value(r.x), 2) THEN Fail("C17", "acos_bound")
       ELSE LET rv == Value(r.x)
                rb == BExact(rv)
                vb == BExact(v)
            IN C01Of(r) \cup
               (IF DCmp(v, DInt(-1)) = 0 THEN Verdict("C17", "acos_minus_one", Within3(rv, PiB, BPow2(-100)))
                ELSE LET dl == BPow2(-45)
                         sc == BSinCos(rb)
                         up == BAdd(rb, dl)
                         dn == BSub(rb, dl)
                         \* cos decreases on [0, pi]:  A <= r + d  <=>  r + d >= pi  or  (r + d >= 0 and cos(r + d) <= v)
                         upper == Or3(Geq3(up, PiB), And3(Geq3(up, BInt(0)), Leq3(CosShift(sc, dl), vb)))
                         lower == Or3(Leq3(dn, BInt(0)), And3(Leq3(dn, PiB), Leq3(vb, CosShift(sc, BNeg(dl)))))
                     IN Verdict("C17", "acos_bound", And3(upper, lower)))

AtanFails(x, r) ==
  IF ~Valid(x) THEN {Skip}
  ELSE IF r.t # "tf" THEN Fail("C17", "atan_panics")
  ELSE LET v == Value(x) IN
       IF v.mag = <<>> THEN Chk(ExactValue(r, DZero), "C17", "atan_zero")
       ELSE IF ~AbsLeqPow2(v, 60) THEN {Skip}
       ELSE IF ~Valid(r.x) THEN Fail("C17", "atan_not_valid")
       ELSE IF ~AbsLeqPow2(Value(r.x), 2) THEN Fail("C17", "atan_bound")
       ELSE LET rv == Value(r.x)
                rb == BExact(rv)
                vb == BExact(v)
                dl == BScale2(BAbs(Fuzzy(rv, 40)), -70)
                sc == BSinCos(rb)
                \* tan increases on (-pi/2, pi/2):  A <= r + d  <=>  r + d >= pi/2  or  (r + d > -pi/2 and v cos <= sin)
                T(d) == LET db == BExact(d)
                            up == BAdd(rb, db)
                            dn == BSub(rb, db)
                            upper == Or3(Geq3(up, PiHalfB), And3(Geq3(up, BNeg(PiHalfB)), Leq3(BMul(vb, CosShift(sc, db)), SinShift(sc, db))))
                            lower == Or3(Leq3(dn, BNeg(PiHalfB)), And3(Leq3(dn, PiHalfB), Leq3(SinShift(sc, BNeg(db)), BMul(vb, CosShift(sc, BNeg(db))))))
                        IN And3(upper, lower)
            IN C01Of(r) \cup Verdict("C17", "atan_bound", Decide(dl, T))

Atan2Fails(y, x, r) ==
  IF ~(Valid(x) /\ Valid(y)) THEN {Skip}
  ELSE IF r.t # "tf" THEN Fail("C17", "atan2_panics")
  ELSE LET vx == Value(x)   vy == Value(y) IN
       IF vx.mag = <<>> /\ vy.mag = <<>> THEN {Skip}
       ELSE IF vy.mag = <<>>
            THEN (IF ~x.hi.neg THEN Chk(ExactValue(r, DZero), "C17", "atan2_positive_x_axis")
                  ELSE LET c == CorrectDD(PiB) IN
                       IF ~c.ok THEN Undecided("C17", "atan2_axis")
                       ELSE Chk(r.x = (IF y.hi.neg THEN NegTF(c.x) ELSE c.x), "C17", "atan2_negative_x_axis"))
       ELSE IF vx.mag = <<>>
            THEN LET c == CorrectDD(PiHalfB) IN
                 IF ~c.ok THEN Undecided("C17", "atan2_axis")
                 ELSE Chk(r.x = (IF vy.neg THEN NegTF(c.x) ELSE c.x), "C17", "atan2_y_axis")
       ELSE IF ~(WInRange(x.hi, -30, 30) /\ WInRange(y.hi, -30, 30)) THEN {Skip}
       ELSE IF ~Valid(r.x) THEN Fail("C17", "atan2_not_valid")
       ELSE IF ~AbsLeqPow2(Value(r.x), 2) THEN Fail("C17", "atan2_bound")
       ELSE LET rv == Value(r.x)
                rb == BExact(rv)
                sc == BSinCos(rb)
                dl == BScale2(BAbs(Fuzzy(rv, 40)), -69)
                num == BAbs(BSub(BMulD(sc.c, vy), BMulD(sc.s, vx)))                   \* rho |sin(theta - r)|
                den == BAdd(BMulD(sc.c, vx), BMulD(sc.s, vy))                         \* rho cos(theta - r)
                T(d) == LET db == BExact(d)
                            tand == [db EXCEPT !.r = RAdd(@, RPow2(3 * BAbsHiExp(db) + 1))]     \* tan d = d +- 2|d|^3
                        IN And3(Leq3(BInt(0), den), Leq3(num, BMul(tand, den)))
            IN C01Of(r)
               \cup Chk(rv.mag # <<>> /\ rv.neg = vy.neg, "C17", "atan2_sign")
               \cup Verdict("C17", "atan2_bound", Decide(dl, T))

\* ==========================================================================
\* C18  hyperbolic functions
\* exp(d) for a tiny ball d (|d| < 2^-30):  1 + d + d^2/2 +- |d|^3
ExpTiny(dl) == [BAdd(BAdd(BInt(1), dl), BScale2(BSqr(dl), -1)) EXCEPT !.r = RAdd(@, RPow2(3 * BAbsHiExp(dl)))]

HypFwdFails(op, x, r) ==
  IF ~Valid(x) THEN {Skip}
  ELSE IF r.t # "tf" THEN Fail("C18", op \o "_panics")
  ELSE LET v == Value(x) IN
       C01In(x, r) \cup
       (IF v.mag = <<>> THEN Chk(ExactValue(r, IF op = "cosh" THEN DOne ELSE DZero), "C18", op \o "_zero")
        ELSE IF DCmpAbs(v, DInt(600)) > 0 THEN {}
        ELSE IF ~Valid(r.x) THEN Fail("C18", op \o "_not_valid")
        ELSE LET rv == Value(r.x) IN
             CASE op = "cosh" ->
                    \* |2 r E - (E^2 + 1)| <= 2^-100 (E^2 + 1)
                    LET E == BExp(VB(x))   s == BAdd(BSqr(E), BInt(1)) IN
                    Verdict("C18", "cosh_bound", Leq3(BAbs(BSub(BMulD(BScale2(E, 1), rv), s)), BScale2(s, -100)))
               [] op = "sinh" ->
                    \* |2 r E - (E^2 - 1)| <= 2^-100 |E^2 - 1| + 2^-101 2E
                    LET E == BExp(VB(x))   s == BSub(BSqr(E), BInt(1)) IN
                    Verdict("C18", "sinh_bound", Leq3(BAbs(BSub(BMulD(BScale2(E, 1), rv), s)),
                                                       BAdd(BScale2(BAbs(s), -100), BScale2(E, -100))))
               [] op = "tanh" ->
                    \* |r (E2 + 1) - (E2 - 1)| <= 2^-100 |E2 - 1| + 2^-101 (E2 + 1),  E2 = exp(2x)
                    LET E2 == BExp(BScale2(VB(x), 1))   p == BAdd(E2, BInt(1))   m == BSub(E2, BInt(1)) IN
                    Verdict("C18", "tanh_bound", Leq3(BAbs(BSub(BMulD(p, rv), m)),
                                                       BAdd(BScale2(BAbs(m), -100), BScale2(p, -101)))))

HypInvFails(op, x, r) ==
  IF ~Valid(x) THEN {Skip}
  ELSE IF r.t # "tf" THEN Fail("C18", op \o "_panics")
  ELSE LET v == Value(x)   vb == BExact(v) IN
  CASE op = "asinh" ->
         IF v.mag = <<>> THEN Chk(ExactValue(r, DZero), "C18", "asinh_zero")
         ELSE IF ~AbsLeqPow2(v, 60) THEN {Skip}
         ELSE IF ~Valid(r.x) THEN Fail("C18", "asinh_not_valid")
         ELSE IF ~AbsLeqPow2(Value(r.x), 6) THEN Fail("C18", "asinh_bound")          \* asinh(2^60) < 43
         ELSE LET rv == Value(r.x)
                  dl == BAdd(BScale2(BAbs(Fuzzy(rv, 40)), -100), BPow2(-98))
                  E == BExp(BExact(rv))
                  \* sinh increasing:  v <= sinh(r + d)  <=>  2 v E+ <= E+^2 - 1
                  T(d) == LET Eu == BMul(E, ExpTiny(BExact(d)))   Ed == BMul(E, ExpTiny(BExact(DNeg(d))))
                              upper == Leq3(BMul(BScale2(vb, 1), Eu), BSub(BSqr(Eu), BInt(1)))
                              lower == Leq3(BSub(BSqr(Ed), BInt(1)), BMul(BScale2(vb, 1), Ed))
                          IN And3(upper, lower)
              IN C01Of(r) \cup Verdict("C18", "asinh_bound", Decide(dl, T))
    [] op = "acosh" ->
         IF DCmp(v, DOne) < 0 THEN Chk(~Valid(r.x), "C18", "acosh_below_one_valid")
         ELSE IF DCmp(v, DOne) = 0 THEN Chk(ExactValue(r, DZero), "C18", "acosh_one")
         ELSE IF ~AbsLeqPow2(v, 60) THEN {Skip}
         ELSE IF ~Valid(r.x) THEN Fail("C18", "acosh_not_valid")
         ELSE IF ~AbsLeqPow2(Value(r.x), 6) THEN Fail("C18", "acosh_bound")
         ELSE LET rv == Value(r.x) IN
              IF rv.mag = <<>> \/ rv.neg THEN Fail("C18", "acosh_bound")
              ELSE IF DMsb(rv) < -30 THEN Undecided("C18", "acosh_bound_near_one")
              ELSE LET rf == Fuzzy(rv, 30)
                       dl == BScale2(BAdd(rf, BRecip(rf)), -100)                 \* 2^-100 (A + 1/A)
                       E == BExp(BExact(rv))
                       \* cosh increasing on [0, inf):  v <= cosh(r + d) <=> 2 v E+ <= E+^2 + 1
                       T(d) == LET Eu == BMul(E, ExpTiny(BExact(d)))   Ed == BMul(E, ExpTiny(BExact(DNeg(d))))
                                   upper == Leq3(BMul(BScale2(vb, 1), Eu), BAdd(BSqr(Eu), BInt(1)))
                                   lower == Or3(Leq3(BExact(DSub(rv, d)), BInt(0)),
                                                Leq3(BAdd(BSqr(Ed), BInt(1)), BMul(BScale2(vb, 1), Ed)))
                               IN And3(upper, lower)
                   IN C01Of(r) \cup Verdict("C18", "acosh_bound", Decide(dl, T))
    [] op = "atanh" ->
         IF DCmpAbs(v, DOne) >= 0 THEN Chk(~Valid(r.x), "C18", "atanh_out_of_domain_valid")
         ELSE IF v.mag = <<>> THEN Chk(ExactValue(r, DZero), "C18", "atanh_zero")
         ELSE IF DCmpAbs(v, DSub(DOne, DPow2(-10))) > 0 THEN {Skip}
         ELSE IF ~Valid(r.x) THEN Fail("C18", "atanh_not_valid")
         ELSE IF ~AbsLeqPow2(Value(r.x), 3) THEN Fail("C18", "atanh_bound")          \* atanh(1 - 2^-10) < 3.9
         ELSE LET rv == Value(r.x)
                  dl == BAdd(BScale2(BAbs(Fuzzy(rv, 40)), -100), BPow2(-101))
                  E2 == BExp(BExact(DScale2(rv, 1)))
                  \* tanh increasing:  v <= tanh(r + d) <=> v (E2+ + 1) <= E2+ - 1
                  T(d) == LET Eu == BMul(E2, ExpTiny(BExact(DScale2(d, 1))))   Ed == BMul(E2, ExpTiny(BExact(DNeg(DScale2(d, 1)))))
                              upper == Leq3(BMul(vb, BAdd(Eu, BInt(1))), BSub(Eu, BInt(1)))
                              lower == Leq3(BSub(Ed, BInt(1)), BMul(vb, BAdd(Ed, BInt(1))))
                          IN And3(upper, lower)
              IN C01Of(r) \cup Verdict("C18", "atanh_bound", Decide(dl, T))

\* ==========================================================================
\* C12  constants, extremes, angle conversions
ConstBall(name) ==
  CASE name = "E" -> BExp(BInt(1))
    [] name = "FRAC_1_PI" -> BRecip(PiB)
    [] name = "FRAC_2_PI" -> BScale2(BRecip(PiB), 1)
    [] name = "FRAC_2_SQRT_PI" -> BScale2(BRecip(BSqrt(PiB)), 1)
    [] name = "FRAC_1_SQRT_2" -> BSqrt(BExact(DPow2(-1)))
    [] name = "FRAC_PI_2" -> BScale2(PiB, -1)
    [] name = "FRAC_PI_3" -> BDivInt(PiB, 3)
    [] name = "FRAC_PI_4" -> BScale2(PiB, -2)
    [] name = "FRAC_PI_6" -> BDivInt(PiB, 6)
    [] name = "FRAC_PI_8" -> BScale2(PiB, -3)
    [] name = "LN_2" -> Ln2B
    [] name = "LN_10" -> Ln10B
    [] name = "LOG2_E" -> InvLn2B
    [] name = "LOG10_E" -> InvLn10B
    [] name = "LOG10_2" -> BMul(Ln2B, InvLn10B)
    [] name = "LOG2_10" -> BMul(Ln10B, InvLn2B)
    [] name = "PI" -> PiB
    [] name = "SQRT_2" -> BSqrt(BInt(2))
    [] name = "TAU" -> BScale2(PiB, 1)
MathConstNames == {"E", "FRAC_1_PI", "FRAC_2_PI", "FRAC_2_SQRT_PI", "FRAC_1_SQRT_2", "FRAC_PI_2", "FRAC_PI_3", "FRAC_PI_4",
                   "FRAC_PI_6", "FRAC_PI_8", "LN_2", "LN_10", "LOG2_E", "LOG10_E", "LOG10_2", "LOG2_10", "PI", "SQRT_2", "TAU"}

ConstFails(name, r) ==
  IF r.t # "tf" THEN Fail("C12", "const_panics")
  ELSE CASE name \in MathConstNames ->
              LET c == CorrectDD(ConstBall(name)) IN
              IF ~c.ok THEN Undecided("C12", "constant_rounding") ELSE Chk(r.x = c.x, "C12", "constant_not_correctly_rounded") \cup C01Of(r)
         [] name = "MAX" -> Chk(r.x.hi = MaxFinite(FALSE) /\ Valid(r.x) /\ r.x.lo.k = "f" /\ ~r.x.lo.neg
                                /\ ~NoOverlapDef(r.x.hi, NextUpMag(r.x.lo)), "C12", "max_not_largest_valid")
         [] name = "MIN" -> Chk(r.x.hi = MaxFinite(TRUE) /\ Valid(r.x) /\ r.x.lo.k = "f" /\ r.x.lo.neg
                                /\ ~NoOverlapDef(r.x.hi, NextUpMag(r.x.lo)), "C12", "min_not_smallest_valid")
         [] name = "MIN_POSITIVE" -> Chk(ExactValue(r, DPow2(EMIN)), "C12", "min_positive")
         [] name = "NAN" -> Chk(r.x.hi.k = "n", "C12", "nan_constant")
         [] name = "INFINITY" -> Chk(~Valid(r.x) /\ r.x.hi = Inf(FALSE), "C12", "infinity_constant")
         [] name = "NEG_INFINITY" -> Chk(~Valid(r.x) /\ r.x.hi = Inf(TRUE), "C12", "neg_infinity_constant")
         [] name = "ZERO" -> Chk(r.x = TF(Zero(FALSE), Zero(FALSE)), "C10", "zero_constant")
         [] name = "ONE" -> Chk(ExactValue(r, DOne) /\ IsZeroW(r.x.lo), "C10", "one_constant")
         [] name = "NEG_ZERO" -> Chk(r.x.hi = Zero(TRUE) /\ IsZeroW(r.x.lo), "C10", "neg_zero_constant")
         [] OTHER -> {}

\* |r pi - 180 v| 2^106 <= 6 * 180 |v|   (to_degrees);   |180 r - pi v| 2^106 <= 6 pi |v|   (to_radians)
AngleFails(op, x, r) ==
  IF ~InDomNZ(x, -450, 450) THEN (IF InDom(x, -450, 450) THEN C01Of(r) ELSE {Skip})
  ELSE IF r.t # "tf" THEN Fail("C12", op \o "_panics")
  ELSE IF ~Valid(r.x) THEN Fail("C12", op \o "_not_valid")
  ELSE LET v == Value(x)   rv == Value(r.x)
           six == [neg |-> FALSE, mag |-> <<6>>, e |-> -106]
       IN C01Of(r) \cup
          (IF op = "to_degrees"
           THEN Verdict("C12", "to_degrees_bound",
                        Leq3(BAbs(BSub(BMulD(PiB, rv), BExact(DMul(DInt(180), v)))), BExact(DMul(six, DMul(DInt(180), DAbs(v))))))
           ELSE Verdict("C12", "to_radians_bound",
                        Leq3(BAbs(BSub(BExact(DMul(DInt(180), rv)), BMulD(PiB, v))), BMulD(PiB, DMul(six, DAbs(v))))))

\* ==========================================================================
ElemFails(fam, op, A, r) ==
  CASE op = "fma" -> FmaFails(A, r)
    [] op = "powi" -> PowiFails(A[1].x, A[2], r)
    [] op \in {"to_degrees", "to_radians"} -> AngleFails(op, A[1].x, r)
    [] op = "const" -> ConstFails(A[1].v, r)
    [] op = "sqrt" -> SqrtFails(A[1].x, r)
    [] op = "cbrt" -> CbrtFails(A[1].x, r)
    [] op = "hypot" -> HypotFails(A[1].x, A[2].x, r)
    [] op = "exp" -> ExpFails(A[1].x, r)
    [] op = "exp2" -> Exp2Fails(A[1].x, r)
    [] op = "exp_m1" -> ExpM1Fails(A[1].x, r)
    [] op = "powf" -> PowfFails(A[1].x, IF A[2].t = "tf" THEN A[2].x ELSE TF(A[2].w, Zero(FALSE)), A[3].x, r)
    [] op \in {"ln", "log2", "log10"} -> LogFails(op, A[1].x, r)
    [] op = "ln_1p" -> Ln1pFails(A[1].x, r)
    [] op = "log" -> IF LogDomain(A[1].x) /\ LogDomain(A[2].x) /\ Pos(A[1].x) /\ Pos(A[2].x)
                        /\ DCmp(Value(A[2].x), DOne) # 0 THEN C01Of(r) ELSE {Skip}
    [] op \in {"sin", "cos", "tan", "sin_cos"} -> TrigFails(op, A[1].x, r)
    [] op = "asin" -> AsinFails(A[1].x, r)
    [] op = "acos" -> AcosFails(A[1].x, r)
    [] op = "atan" -> AtanFails(A[1].x, r)
    [] op = "atan2" -> Atan2Fails(A[1].x, A[2].x, r)
    [] op \in {"sinh", "cosh", "tanh"} -> HypFwdFails(op, A[1].x, r)
    [] op \in {"asinh", "acosh", "atanh"} -> HypInvFails(op, A[1].x, r)
    [] OTHER -> {<<"tool", "unknown_elem_op">>}
=============================================================================
