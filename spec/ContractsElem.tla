---------------------------- MODULE ContractsElem ----------------------------
(***************************************************************************)
(* Contracts for C12-C18 (constants, roots and powers, exponential,        *)
(* logarithmic, trigonometric and hyperbolic families).                    *)
(***************************************************************************)
EXTENDS ContractsMisc

InRangeTF(x, lo2, hi2) == InDom(x, lo2, hi2)

ElemFails(fam, op, A, r) ==
  CASE op = "fma" -> FmaFails(A, r)
    [] op = "powi" -> PowiStructFails(A[1].x, A[2], r) \cup (IF InDom(A[1].x, -1000, 1000) THEN C01Of(r) ELSE {})
    [] op \in {"to_degrees", "to_radians"} -> IF InDom(A[1].x, -1000, 1000) THEN C01Of(r) ELSE {Skip}
    [] op = "const" -> IF r.t = "tf" /\ r.x.hi.k = "f" THEN C01Of(r) ELSE {}
    [] OTHER -> {<<"tool", "unknown_elem_op">>}
=============================================================================
