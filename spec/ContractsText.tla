---------------------------- MODULE ContractsText ----------------------------
(***************************************************************************)
(* Contracts for C20: text output (Display / LowerExp / UpperExp) and the  *)
(* serde Serialize / Deserialize implementations.                          *)
(*                                                                         *)
(* Formatting: the output is logged as a sequence of one-character strings *)
(* and tokenised here; the harness additionally logs what f64 parsing      *)
(* returns for the first and third token and the plain f64 renderings of   *)
(* hi and |lo| with the same flags (the references the property names).    *)
(* Deserialisation: the contract is the small automaton "well-formed       *)
(* (hi, lo) with no missing, duplicate or unknown field AND non-overlapping*)
(* (hence finite) words => Ok(same words), otherwise Err".                 *)
(***************************************************************************)
EXTENDS ContractsElem, FiniteSets

SpacePositions(c) == { i \in 1..Len(c) : c[i] = " " }
MinOf(S) == CHOOSE x \in S : \A y \in S : x <= y
MaxOf(S) == CHOOSE x \in S : \A y \in S : x >= y

FormatFails(A, r) ==
  LET x == A[1].x
      plus == A[3].v = "+"
      noprec == A[4].neg
  IN IF ~Valid(x) THEN {Skip}
     ELSE IF r.t # "fmt" THEN Fail("C20", "format_panics")
     ELSE LET c == r.c
              sp == SpacePositions(c)
          IN IF Cardinality(sp) # 2 THEN Fail("C20", "format_not_three_tokens")
             ELSE LET s1 == MinOf(sp)   s2 == MaxOf(sp)
                      t1 == SubSeq(c, 1, s1 - 1)
                      t2 == SubSeq(c, s1 + 1, s2 - 1)
                      t3 == SubSeq(c, s2 + 1, Len(c))
                  IN IF t1 = <<>> \/ t3 = <<>> \/ Len(t2) # 1 THEN Fail("C20", "format_not_three_tokens")
                     ELSE Chk(t2[1] = (IF x.lo.neg THEN "-" ELSE "+"), "C20", "format_sign_char")
                          \cup (IF noprec
                                THEN Chk(r.p1ok /\ r.p1 = x.hi, "C20", "format_hi_does_not_parse_back")
                                     \cup Chk(r.p2ok /\ r.p2 = FAbs(x.lo), "C20", "format_lo_does_not_parse_back")
                                ELSE Chk(t1 = r.ref_hi, "C20", "format_hi_precision_rendering")
                                     \cup Chk(t3 = r.ref_lo, "C20", "format_lo_precision_rendering"))
                          \cup (IF plus THEN Chk(t1[1] = (IF x.hi.neg THEN "-" ELSE "+"), "C20", "format_plus_flag") ELSE {})

\* ---- serde ---------------------------------------------------------------------------
PairOutcome(a, b, r) ==
  IF NoOverlapDef(a, b)
  THEN Chk(r.t = "tf", "C20", "valid_input_rejected")
       \cup (IF r.t = "tf" THEN Chk(r.x = TF(a, b), "C20", "deserialized_words_differ") ELSE {})
  ELSE Chk(r.t = "err", "C20", "invalid_pair_deserialized")

IndexOf(keys, k) == CHOOSE i \in 1..Len(keys) : keys[i] = k
MapOutcome(keys, vals, r) ==
  IF Len(keys) = 2 /\ {keys[1], keys[2]} = {"hi", "lo"} /\ Len(vals) = 2
  THEN PairOutcome(vals[IndexOf(keys, "hi")], vals[IndexOf(keys, "lo")], r)
  ELSE Chk(r.t = "err", "C20", "malformed_map_accepted")
SeqOutcome(vals, r) ==
  IF Len(vals) = 2 THEN PairOutcome(vals[1], vals[2], r)
  ELSE IF Len(vals) < 2 THEN Chk(r.t = "err", "C20", "short_sequence_accepted")
  ELSE {Skip}

SerdeFails(op, A, r) ==
  CASE op = "ser_json" ->
         IF ~Valid(A[1].x) THEN {Skip}
         ELSE Chk(r.t = "ser" /\ r.keys = <<"hi", "lo">> /\ r.vals = <<A[1].x.hi, A[1].x.lo>>, "C20", "serialized_form")
    [] op = "ser_tokens" -> IF ~Valid(A[1].x) THEN {Skip} ELSE Chk(r.t = "b" /\ r.v, "C20", "serialized_tokens")
    [] op = "rt_json" -> IF ~Valid(A[1].x) THEN {Skip} ELSE Chk(r.t = "tf" /\ r.x = A[1].x, "C20", "round_trip")
    [] op = "de_seq" -> SeqOutcome(A[1].v, r)
    [] op = "de_map" -> MapOutcome(A[1].v, A[2].v, r)
    [] op = "de_json" -> IF A[1].v = "seq" THEN SeqOutcome(A[3].v, r) ELSE MapOutcome(A[2].v, A[3].v, r)
    [] OTHER -> {<<"tool", "unknown_serde_op">>}

\* ---- behaviour outside the twenty properties (recorded as X01, never a violation of C01-C20)
\* classification entry points of num_traits::Float / FloatCore: they look at the words only
ClassOf(w) == IF w.k = "n" THEN "Nan" ELSE IF w.k = "i" THEN "Infinite"
              ELSE IF w.mag = <<>> THEN "Zero" ELSE IF BitLen(w.mag) < P THEN "Subnormal" ELSE "Normal"
StrOf(c) == c            \* sequences of one-character strings
CharsOf(s) == CASE s = "Nan" -> <<"N", "a", "n">> [] s = "Infinite" -> <<"I", "n", "f", "i", "n", "i", "t", "e">>
                [] s = "Zero" -> <<"Z", "e", "r", "o">> [] s = "Subnormal" -> <<"S", "u", "b", "n", "o", "r", "m", "a", "l">>
                [] s = "Normal" -> <<"N", "o", "r", "m", "a", "l">>
ExtraFails(op, A, r) ==
  LET x == A[1].x IN
  CASE op = "classify" -> Chk(r.t = "str" /\ r.c = CharsOf(ClassOf(x.hi)), "X01", "classify_is_class_of_hi")
    [] op = "is_nan" -> Chk(r.t = "b" /\ r.v = (x.hi.k = "n" \/ x.lo.k = "n"), "X01", "is_nan")
    [] op = "is_infinite" -> Chk(r.t = "b" /\ r.v = (x.hi.k = "i" \/ x.lo.k = "i"), "X01", "is_infinite")
    [] op = "is_finite" -> Chk(r.t = "b" /\ r.v = Valid(x), "X01", "is_finite_is_is_valid")
    [] op = "is_normal" -> Chk(r.t = "b" /\ r.v = (ClassOf(x.hi) = "Normal"), "X01", "is_normal")
    [] op = "is_zero" -> IF Valid(x) THEN Chk(r.t = "b" /\ r.v = (Value(x).mag = <<>>), "X01", "is_zero") ELSE {Skip}
    [] op = "integer_decode" -> Chk(r.t = "panic", "X01", "integer_decode_always_panics")
    [] OTHER -> {<<"tool", "unknown_extra_op">>}
TextFails(op, A, r) ==
  CASE op = "fmt" -> FormatFails(A, r)
    [] op \in {"classify", "is_nan", "is_infinite", "is_finite", "is_normal", "is_zero", "integer_decode"} -> ExtraFails(op, A, r)
    [] op = "from_str_radix" -> Chk(r.t = "str", "X01", "from_str_radix_must_fail")
    [] op = "err_display" -> Chk(r.t = "str" /\ Len(r.c) > 0, "X01", "error_display_empty")
    [] OTHER -> {<<"tool", "unknown_text_op">>}
=============================================================================
