SPECIFICATION Spec
CONSTANTS
  P = 4
  EMIN <- EMIN_WIDE
  EMAX <- EMAX_WIDE
  MODE = "sqrt"
  E0 <- E0_ZERO
  GAP = 1
  LOW = 12
  WBITS = 8
INVARIANT NoBad
POSTCONDITION Report
CHECK_DEADLOCK FALSE
