SPECIFICATION Spec
CONSTANTS
  P = 3
  EMIN <- EMIN_WIDE
  EMAX <- EMAX_WIDE
  MODE = "toint"
  E0 <- E0_P2
  GAP = 5
  LOW = 12
  WBITS = 8
INVARIANT NoBad
POSTCONDITION Report
CHECK_DEADLOCK FALSE
