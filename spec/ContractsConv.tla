---------------------------- MODULE ContractsConv ----------------------------
(***************************************************************************)
(* Contracts for C08 (floor, ceil, trunc, round, fract are exact) and C09  *)
(* (integer and float conversions).                                        *)
(***************************************************************************)
EXTENDS ContractsBase

\* --------------------------------------------------------------------------
\* C08
ExactRounding(op, v) ==
  CASE op = "floor" -> DFloor(v)
    [] op = "ceil" -> DCeil(v)
    [] op = "trunc" -> DTrunc(v)
    [] op = "round" -> DRoundHalfAway(v)
    [] op = "fract" -> DFract(v)

FracFails(op, A, r) ==
  LET x == A[1].x IN
  IF ~Valid(x) THEN {Skip}
  ELSE IF r.t # "tf" THEN Fail("C08", "panic")
  ELSE C01Of(r)
       \cup Chk(Valid(r.x), "C08", "result_not_valid")
       \cup (IF Valid(r.x) THEN Chk(DCmp(Value(r.x), ExactRounding(op, Value(x))) = 0, "C08", op \o "_not_exact") ELSE {})

\* --------------------------------------------------------------------------
\* C09
IntBits(ty) == CASE ty = "i8" \/ ty = "u8" -> 8
                 [] ty = "i16" \/ ty = "u16" -> 16
                 [] ty = "i32" \/ ty = "u32" -> 32
                 [] ty = "i64" \/ ty = "u64" \/ ty = "isize" \/ ty = "usize" -> 64
                 [] ty = "i128" \/ ty = "u128" -> 128
IntSigned(ty) == ty \in {"i8", "i16", "i32", "i64", "i128", "isize"}

\* integer-valued dyadic t lies in the range of type ty
InIntRange(t, ty) ==
  LET w == IntBits(ty) IN
  IF t.mag = <<>> THEN TRUE
  ELSE IF IntSigned(ty)
       THEN IF t.neg THEN DCmpAbs(t, DPow2(w - 1)) <= 0 ELSE DCmpAbs(t, DPow2(w - 1)) < 0
       ELSE ~t.neg /\ DCmpAbs(t, DPow2(w)) < 0

IntD(neg, mag) == [neg |-> neg, mag |-> mag, e |-> 0]
SigBits(mag) == IF mag = <<>> THEN 0 ELSE BitLen(mag) - Tz(mag)

FromIntFails(a, r) ==
  LET n == IntD(a.neg, a.mag) IN
  IF r.t # "tf" THEN Fail("C09", "from_int_no_value")
  ELSE C01Of(r)
       \cup Chk(Valid(r.x), "C09", "from_int_not_valid")
       \cup (IF ~Valid(r.x) THEN {}
             ELSE IF IntBits(a.ty) <= 64 \/ SigBits(a.mag) <= 106
                  THEN Chk(DCmp(Value(r.x), n) = 0, "C09", "from_int_not_exact")
                  ELSE Chk(DCmp(DScale2(DAbs(DSub(Value(r.x), n)), 106), DAbs(n)) <= 0, "C09", "from_int_bound"))

TryIntoFails(x, ty, r) ==
  IF x.hi.k # "f" \/ x.lo.k # "f" THEN Chk(r.t = "err", "C09", "nonfinite_not_rejected")
  ELSE IF ~Valid(x) THEN {Skip}
  ELSE LET t == DTrunc(Value(x)) IN
       IF InIntRange(t, ty)
       THEN Chk(r.t = "i" /\ DCmp(IntD(r.neg, r.mag), t) = 0, "C09", "try_into_value")
       ELSE Chk(r.t = "err", "C09", "out_of_range_not_rejected")

\* f32 words are logged in the binary32 format; their value as a binary64 word:
F32ToF64(w) == IF w.k = "f" THEN RN(D(w)) ELSE w

ConvFails(op, A, r) ==
  CASE op = "from_int" -> FromIntFails(A[1], r)
    [] op = "try_into" -> TryIntoFails(A[1].x, A[2].v, r)
    [] op = "to_f64" -> Chk(r.t = "f" /\ r.w = A[1].x.hi, "C09", "to_f64_is_hi")
    [] op = "to_f32" -> Chk(r.t = "f32" /\ r.w = CastF32(A[1].x.hi), "C09", "to_f32_is_rounded_hi")
    [] op = "from_f32" ->
         IF r.t # "tf" THEN Fail("C09", "panic")
         ELSE Chk(r.x.hi = F32ToF64(A[1].w) /\ IsZeroW(r.x.lo), "C09", "from_f32_exact")
              \cup (IF A[1].w.k = "f" THEN C01Of(r) ELSE {})
    [] op \in {"floor", "ceil", "trunc", "round", "fract"} -> FracFails(op, A, r)
    [] OTHER -> {<<"tool", "unknown_conv_op">>}
=============================================================================
