--------------------------- MODULE ContractsArith ---------------------------
(***************************************************************************)
(* Contracts (B) for the arithmetic family: the given properties C02, C03, *)
(* C04, C05, C19 (and the C01 clause of every TwoFloat-producing action)   *)
(* written as predicates over exact dyadic arithmetic.                     *)
(*                                                                         *)
(* An operand is a tagged record: [t |-> "tf", x |-> TwoFloat]             *)
(*                                [t |-> "f",  w |-> word]                 *)
(* A result is                    [t |-> "tf", x |-> TwoFloat] or          *)
(*                                [t |-> "panic"] ...                      *)
(* Each contract returns the set of violated clauses <<property, clause>>; *)
(* the element Skip means "operands outside the domain the property        *)
(* states": the result is then unconstrained.                              *)
(***************************************************************************)
EXTENDS DD

Skip == <<"skip", "domain">>
Fail(p, c) == {<<p, c>>}
Chk(cond, p, c) == IF cond THEN {} ELSE {<<p, c>>}

IsTFRes(r) == r.t = "tf"
ValOf(a) == IF a.t = "tf" THEN Value(a.x) ELSE D(a.w)
OkOperand(a, lo2, hi2) == IF a.t = "tf" THEN InDom(a.x, lo2, hi2)
                          ELSE a.t = "f" /\ WInRange(a.w, lo2, hi2)
OkOperandNZ(a, lo2, hi2) == IF a.t = "tf" THEN InDomNZ(a.x, lo2, hi2)
                            ELSE a.t = "f" /\ WInRangeNZ(a.w, lo2, hi2)
LoWordOf(a) == IF a.t = "tf" THEN a.x.lo ELSE Zero(FALSE)

\* C01 clause shared by every action that returns a TwoFloat
C01Of(r) == IF r.t = "tf" THEN Chk(Normalised(r.x), "C01", "not_normalised")
            ELSE IF r.t = "tf2" THEN Chk(Normalised(r.x) /\ Normalised(r.y), "C01", "not_normalised")
            ELSE {}

\* u = 2^-P.  At binary64: U2 = 106, U3 = 159 and the magnitude ranges are the ones the properties
\* state; in a small format (exhaustive models) the ranges are the analogous windows of the format.
U2 == 2 * P
U3 == 3 * P
IsB64 == P = 53
AddLo == IF IsB64 THEN -1000 ELSE EMIN + 2 * P + 2
AddHi == IF IsB64 THEN 1000 ELSE EMAX - 2
MulLo == IF IsB64 THEN -450 ELSE (EMIN + 2 * P + 2) \div 2
MulHi == IF IsB64 THEN 450 ELSE (EMAX - 2) \div 2
RemLo == IF IsB64 THEN -400 ELSE MulLo
RemHi == IF IsB64 THEN 400 ELSE MulHi
RemQ == IF IsB64 THEN 90 ELSE 2 * P - 2
NewDivLo == IF IsB64 THEN -480 ELSE MulLo
NewDivHi == IF IsB64 THEN 480 ELSE MulHi
NewMulLo == IF IsB64 THEN -960 ELSE EMIN + 2 * P
\* 3*2^P + 13 : relative error 3u^2 + 13u^3 scaled by 2^(3P)
C3U2 == Add(Shl(<<3>>, P), <<13>>)

\* --------------------------------------------------------------------------
\* C02  two-word constructors
MagBelow(w, k) == w.k = "f" /\ (w.mag = <<>> \/ w.e + BitLen(w.mag) - 1 < k)      \* |w| < 2^k

NewAddSubFails(op, a, b, r) ==
  IF ~(MagBelow(a, EMAX) /\ MagBelow(b, EMAX)) THEN {Skip}
  ELSE IF r.t # "tf" THEN Fail("C02", "panic")
  ELSE LET t == IF op = "new_add" THEN DAdd(D(a), D(b)) ELSE DSub(D(a), D(b))
           rn == RN(t)
       IN Chk(FEq(r.x.hi, rn), "C02", "hi_is_RN")
          \cup Chk(r.x.hi.k = "f" /\ r.x.lo.k = "f" /\ DCmp(Value(r.x), t) = 0, "C02", "exact_sum")
          \cup C01Of(r)

NewMulFails(a, b, r) ==
  LET t == DMul(D(a), D(b)) IN
  IF ~(a.k = "f" /\ b.k = "f") THEN {Skip}
  ELSE IF ~(t.mag = <<>> \/ (DMsb(t) >= NewMulLo /\ DMsb(t) < EMAX)) THEN {Skip}
  ELSE IF r.t # "tf" THEN Fail("C02", "panic")
  ELSE Chk(FEq(r.x.hi, RN(t)), "C02", "hi_is_RN")
       \cup Chk(r.x.hi.k = "f" /\ r.x.lo.k = "f" /\ DCmp(Value(r.x), t) = 0, "C02", "exact_product")
       \cup C01Of(r)

NewDivFails(a, b, r) ==
  IF ~(WInRangeNZ(a, NewDivLo, NewDivHi) /\ WInRangeNZ(b, NewDivLo, NewDivHi)) THEN {Skip}
  ELSE IF r.t # "tf" THEN Fail("C02", "panic")
  ELSE IF ~(r.x.hi.k = "f" /\ r.x.lo.k = "f") THEN Fail("C02", "quotient_not_finite") \cup C01Of(r)
  ELSE LET hb == DMul(D(r.x.hi), D(b))
           vb == DMul(Value(r.x), D(b))
       IN \* hi within one ulp of a/b:  |hi*b - a| <= ulp(hi) * |b|
          Chk(DCmp(DAbs(DSub(hb, D(a))), DMul(DPow2(r.x.hi.e), DAbs(D(b)))) <= 0, "C02", "hi_within_ulp")
          \* |(hi+lo)*b - a| * 2^106 <= 3 * |a|
          \cup Chk(DCmp(DScale2(DAbs(DSub(vb, D(a))), U2), DMul(DNat(<<3>>), DAbs(D(a)))) <= 0, "C02", "quotient_bound")
          \cup C01Of(r)

FromF64Fails(a, r) ==
  IF r.t # "tf" THEN Fail("C02", "panic")
  ELSE Chk(r.x.hi = a \/ (a.k = "n" /\ r.x.hi.k = "n"), "C02", "from_f64_hi")
       \cup Chk(IsZeroW(r.x.lo), "C02", "from_f64_lo_zero")
       \cup (IF a.k = "f" THEN C01Of(r) ELSE {})

\* --------------------------------------------------------------------------
\* C03  addition / subtraction
AddSubFails(op, a, b, r) ==
  IF ~(OkOperand(a, AddLo, AddHi) /\ OkOperand(b, AddLo, AddHi)) THEN {Skip}
  ELSE IF r.t # "tf" THEN Fail("C03", "panic")
  ELSE LET t == IF op = "add" THEN DAdd(ValOf(a), ValOf(b)) ELSE DSub(ValOf(a), ValOf(b))
           tt == a.t = "tf" /\ b.t = "tf"
           fin == r.x.hi.k = "f" /\ r.x.lo.k = "f"
       IN C01Of(r)
          \cup Chk(fin /\ (IF tt THEN RelErrLeq(Value(r.x), t, C3U2, U3)
                                 ELSE RelErrLeq(Value(r.x), t, <<2>>, U2)), "C03", "bound")

\* --------------------------------------------------------------------------
\* C04  multiplication
\* scaling by the power of two p (a dyadic) keeps the low word w representable
ScaledRepresentable(w, p) == w.mag = <<>> \/ Representable(DMul(D(w), p))

MulFails(a, b, r) ==
  IF ~(OkOperand(a, MulLo, MulHi) /\ OkOperand(b, MulLo, MulHi)) THEN {Skip}
  ELSE IF r.t # "tf" THEN Fail("C04", "panic")
  ELSE LET va == ValOf(a)   vb == ValOf(b)
           t == DMul(va, vb)
           tt == a.t = "tf" /\ b.t = "tf"
           fin == r.x.hi.k = "f" /\ r.x.lo.k = "f"
           vr == Value(r.x)
           unitA == DCmpAbs(va, DOne) = 0
           unitB == DCmpAbs(vb, DOne) = 0
           p2A == IsPow2D(va) /\ ScaledRepresentable(LoWordOf(b), va)
           p2B == IsPow2D(vb) /\ ScaledRepresentable(LoWordOf(a), vb)
       IN C01Of(r)
          \cup Chk(fin /\ (IF tt THEN RelErrLeq(vr, t, <<5>>, U2) ELSE RelErrLeq(vr, t, <<2>>, U2)), "C04", "bound")
          \cup (IF fin /\ (unitA \/ unitB) THEN Chk(DCmp(vr, t) = 0, "C04", "unit_exact") ELSE {})
          \cup (IF fin /\ (p2A \/ p2B) THEN Chk(DCmp(vr, t) = 0, "C04", "pow2_exact") ELSE {})

\* --------------------------------------------------------------------------
\* C05  division, reciprocal
\* |q*b - a| * 2^106 <= num * |a|
QuotErrLeq(q, a, b, num) ==
  DCmp(DScale2(DAbs(DSub(DMul(q, b), a)), U2), DMul(DNat(num), DAbs(a))) <= 0

DivFails(a, b, r) ==
  IF ~(OkOperand(a, MulLo, MulHi) /\ OkOperandNZ(b, MulLo, MulHi)) THEN {Skip}
  ELSE IF r.t # "tf" THEN Fail("C05", "panic")
  ELSE LET va == ValOf(a)   vb == ValOf(b)
           fin == r.x.hi.k = "f" /\ r.x.lo.k = "f"
           vr == Value(r.x)
           num == IF a.t = "tf" /\ b.t = "f" THEN <<3>> ELSE <<16>>
           unitB == DCmpAbs(vb, DOne) = 0
           \* dividing by 2^k is multiplying by 2^-k: exact when the scaled low word exists
           p2B == IsPow2D(vb) /\ ScaledRepresentable(LoWordOf(a), [neg |-> FALSE, mag |-> <<1>>, e |-> -DMsb(vb)])
           same == DCmp(va, vb) = 0
       IN C01Of(r)
          \cup Chk(fin /\ QuotErrLeq(vr, va, vb, num), "C05", "bound")
          \cup (IF fin /\ same THEN Chk(DCmp(vr, DOne) = 0, "C05", "self_div_is_one") ELSE {})
          \cup (IF fin /\ unitB THEN Chk(DCmp(DMul(vr, vb), va) = 0, "C05", "unit_exact") ELSE {})
          \cup (IF fin /\ p2B THEN Chk(DCmp(DMul(vr, vb), va) = 0, "C05", "pow2_exact") ELSE {})

RecipFails(a, r) == DivFails([t |-> "f", w |-> RN(DOne)], a, r)

\* --------------------------------------------------------------------------
\* C19  remainder, Euclidean division
\* exact quotient data for non-zero dyadics a, b:  floor(|a|/|b|) and whether the division is exact
AbsQuot(a, b) ==
  LET s == a.e - b.e IN
  IF s >= 0 THEN DivMod(Shl(a.mag, s), b.mag) ELSE DivMod(a.mag, Shl(b.mag, -s))
\* trunc(a/b) as an integer-valued dyadic
TruncQuot(a, b) == LET d == AbsQuot(a, b) IN
                   IF d.q = <<>> THEN DZero ELSE [neg |-> a.neg # b.neg, mag |-> d.q, e |-> 0]
QuotExact(a, b) == AbsQuot(a, b).r = <<>>
\* the integer adjacent to k away from zero, in the direction of the quotient's sign
AwayOf(k, a, b) == IF a.neg # b.neg THEN DSub(k, DOne) ELSE DAdd(k, DOne)
\* a/b lies within relative 2^-98 of an integer  <=>  |a - n*b| <= 2^-98 |a| for n = trunc or the next one away
NearInt(a, b) ==
  LET k0 == TruncQuot(a, b)
      k1 == AwayOf(k0, a, b)
      near(n) == DCmp(DScale2(DAbs(DSub(a, DMul(n, b))), U2 - 8), DAbs(a)) <= 0
  IN near(k0) \/ near(k1)
\* |res - (a - k*b)| * 2^106 <= 16 * max(|a|,|b|)
RemWithin(vr, a, b, k) ==
  DCmp(DScale2(DAbs(DSub(vr, DSub(a, DMul(k, b)))), U2), DMul(DNat(<<16>>), DMaxAbs(a, b))) <= 0

RemDomain(a, b) ==
  /\ OkOperandNZ(a, RemLo, RemHi) /\ OkOperandNZ(b, RemLo, RemHi)
  /\ DCmpAbs(ValOf(a), DScale2(ValOf(b), RemQ)) <= 0              \* |a/b| <= 2^90

RemFails(a, b, r) ==
  IF ~RemDomain(a, b) THEN {Skip}
  ELSE IF r.t # "tf" THEN Fail("C19", "panic")
  ELSE LET va == ValOf(a)   vb == ValOf(b)
           fin == r.x.hi.k = "f" /\ r.x.lo.k = "f"
           vr == Value(r.x)
           k0 == TruncQuot(va, vb)
           ints == IsIntBelow(va, P) /\ IsIntBelow(vb, P)
       IN C01Of(r)
          \cup Chk(fin /\ ( \/ RemWithin(vr, va, vb, k0)
                            \/ (NearInt(va, vb) /\ ( \/ RemWithin(vr, va, vb, DAdd(k0, DOne))
                                                     \/ RemWithin(vr, va, vb, DSub(k0, DOne)) )) ),
                   "C19", "rem_bound")
          \cup (IF fin /\ ints THEN Chk(DCmp(vr, DSub(va, DMul(k0, vb))) = 0, "C19", "rem_integers_exact") ELSE {})

\* floor(a/b) for b > 0, ceil(a/b) for b < 0, as an integer-valued dyadic
EuclidQuot(a, b) ==
  LET k0 == TruncQuot(a, b)
      exact == QuotExact(a, b)
  IN IF exact THEN k0
     ELSE IF ~b.neg THEN (IF a.neg THEN DSub(k0, DOne) ELSE k0)      \* floor
     ELSE (IF a.neg THEN DAdd(k0, DOne) ELSE k0)                     \* ceil (quotient a/b > 0 iff a.neg)

DivEuclidFails(a, b, r) ==
  IF ~RemDomain(a, b) THEN {Skip}
  ELSE IF r.t # "tf" THEN Fail("C19", "panic")
  ELSE LET va == ValOf(a)   vb == ValOf(b)
           valid == Valid(r.x)
           vr == Value(r.x)
           q == EuclidQuot(va, vb)
           ints == IsIntBelow(va, P) /\ IsIntBelow(vb, P)
       IN C01Of(r)
          \cup Chk(valid /\ ( \/ DCmp(vr, q) = 0
                              \/ (NearInt(va, vb) /\ ( \/ DCmp(vr, DAdd(q, DOne)) = 0
                                                       \/ DCmp(vr, DSub(q, DOne)) = 0 )) ),
                   "C19", "div_euclid_value")
          \cup (IF valid /\ ints THEN Chk(DCmp(vr, q) = 0, "C19", "div_euclid_integers_exact") ELSE {})

\* de: [has, x]: the value div_euclid returned for the same operands when the trace contains it
RemEuclidFails(a, b, r, de) ==
  IF ~RemDomain(a, b) THEN {Skip}
  ELSE IF r.t # "tf" THEN Fail("C19", "panic")
  ELSE LET va == ValOf(a)   vb == ValOf(b)
           fin == r.x.hi.k = "f" /\ r.x.lo.k = "f"
           vr == Value(r.x)
           q == EuclidQuot(va, vb)
           ints == IsIntBelow(va, P) /\ IsIntBelow(vb, P)
           within(k) == RemWithin(vr, va, vb, k)
       IN C01Of(r)
          \cup Chk(fin /\ (IF de.has /\ Valid(de.x) THEN within(Value(de.x))
                           ELSE \/ within(q)
                                \/ (NearInt(va, vb) /\ (within(DAdd(q, DOne)) \/ within(DSub(q, DOne))))),
                   "C19", "rem_euclid_bound")
          \cup (IF fin /\ ints THEN Chk(DCmp(vr, DSub(va, DMul(q, vb))) = 0, "C19", "rem_euclid_integers_exact") ELSE {})

\* --------------------------------------------------------------------------
\* negation: exact, word-wise
NegFails(a, r) ==
  IF r.t # "tf" THEN Fail("C10", "panic")
  ELSE Chk(r.x = NegTF(a.x), "C10", "neg_wordwise")
       \cup (IF Valid(a.x) THEN C01Of(r) ELSE {})

\* --------------------------------------------------------------------------
\* Sum: the fold itself is pinned bit-for-bit by the determinism memo (spellings sum / explicit
\* left fold share one key); here: the empty sum is zero, the result is normalised, and the total
\* stays within n steps of the addition bound relative to the sum of magnitudes.
SumItems(a) == IF a.t = "fl" THEN [i \in 1..Len(a.v) |-> [t |-> "f", w |-> a.v[i]]]
               ELSE [i \in 1..Len(a.v) |-> [t |-> "tf", x |-> a.v[i]]]
SumFails(a, r) ==
  LET items == SumItems(a) IN
  IF \E i \in 1..Len(items) : ~OkOperand(items[i], -900, 900) THEN {Skip}
  ELSE IF r.t # "tf" THEN Fail("C03", "panic")
  ELSE LET exact == FoldLeft(LAMBDA acc, it : DAdd(acc, ValOf(it)), DZero, items)
           mags == FoldLeft(LAMBDA acc, it : DAdd(acc, DAbs(ValOf(it))), DZero, items)
           n == Len(items)
       IN C01Of(r)
          \cup Chk(r.x.hi.k = "f" /\ r.x.lo.k = "f" /\
                   DCmp(DScale2(DAbs(DSub(Value(r.x), exact)), U2 - 2), DMul(DInt(n + 1), mags)) <= 0, "C03", "sum_bound")
          \cup (IF n = 0 THEN Chk(IsZeroTF(r.x), "C03", "empty_sum_not_zero") ELSE {})

\* --------------------------------------------------------------------------
ArithFails(op, A, r, de) ==
  CASE op = "add" \/ op = "sub" -> AddSubFails(op, A[1], A[2], r)
    [] op = "mul" -> MulFails(A[1], A[2], r)
    [] op = "div" -> DivFails(A[1], A[2], r)
    [] op = "recip" -> RecipFails(A[1], r)
    [] op = "rem" -> RemFails(A[1], A[2], r)
    [] op = "div_euclid" -> DivEuclidFails(A[1], A[2], r)
    [] op = "rem_euclid" -> RemEuclidFails(A[1], A[2], r, de)
    [] op = "neg" -> NegFails(A[1], r)
    [] op = "new_add" \/ op = "new_sub" -> NewAddSubFails(op, A[1].w, A[2].w, r)
    [] op = "new_mul" -> NewMulFails(A[1].w, A[2].w, r)
    [] op = "new_div" -> NewDivFails(A[1].w, A[2].w, r)
    [] op = "from_f64" -> FromF64Fails(A[1].w, r)
    [] op = "sum" -> SumFails(A[1], r)
    [] op = "mul_add" -> IF OkOperand(A[1], MulLo, MulHi) /\ OkOperand(A[2], MulLo, MulHi) /\ OkOperand(A[3], 2 * MulLo, 2 * MulHi)
                         THEN C01Of(r) ELSE {Skip}
    [] op = "abs_sub" -> IF OkOperand(A[1], AddLo, AddHi) /\ OkOperand(A[2], AddLo, AddHi) THEN C01Of(r) ELSE {Skip}
    [] OTHER -> {<<"tool", "unknown_arith_op">>}
=============================================================================
