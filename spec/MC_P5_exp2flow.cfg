SPECIFICATION Spec
CONSTANTS
  P = 5
  EMIN <- EMIN_MID
  EMAX <- EMAX_NARROW
  MODE = "exp2flow"
  E0 <- E0_M3
  GAP = 5
  LOW = 7
  WBITS = 8
INVARIANT NoBad
POSTCONDITION Report
CHECK_DEADLOCK FALSE
