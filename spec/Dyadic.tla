------------------------------- MODULE Dyadic -------------------------------
(***************************************************************************)
(* Exact signed dyadic rationals  (-1)^neg * mag * 2^e  with mag a BigNat. *)
(* No canonical exponent: equality of values is DCmp = 0, never record     *)
(* equality.  Zero is any record with mag = <<>>.                          *)
(***************************************************************************)
EXTENDS BigNat

DZero == [neg |-> FALSE, mag |-> <<>>, e |-> 0]
DOne == [neg |-> FALSE, mag |-> <<1>>, e |-> 0]
DNat(m) == [neg |-> FALSE, mag |-> m, e |-> 0]
\* small TLC integer (|n| < 2^31) as a dyadic
DInt(n) == IF n >= 0 THEN [neg |-> FALSE, mag |-> FromInt(n), e |-> 0]
                     ELSE [neg |-> TRUE, mag |-> FromInt(-n), e |-> 0]
\* (+/-) 2^k
DPow2(k) == [neg |-> FALSE, mag |-> <<1>>, e |-> k]

DIsZero(x) == x.mag = <<>>
DNeg(x) == IF x.mag = <<>> THEN x ELSE [x EXCEPT !.neg = ~@]
DAbs(x) == [x EXCEPT !.neg = FALSE]
DScale2(x, k) == [x EXCEPT !.e = @ + k]
DSign(x) == IF x.mag = <<>> THEN 0 ELSE IF x.neg THEN -1 ELSE 1

DAdd(x, y) ==
  IF x.mag = <<>> THEN y ELSE IF y.mag = <<>> THEN x ELSE
  LET e == MinI(x.e, y.e)
      a == Shl(x.mag, x.e - e)
      b == Shl(y.mag, y.e - e)
  IN IF x.neg = y.neg THEN [neg |-> x.neg, mag |-> Add(a, b), e |-> e]
     ELSE LET c == Cmp(a, b) IN
          IF c = 0 THEN DZero
          ELSE IF c > 0 THEN [neg |-> x.neg, mag |-> Sub(a, b), e |-> e]
          ELSE [neg |-> y.neg, mag |-> Sub(b, a), e |-> e]
DSub(x, y) == DAdd(x, DNeg(y))

DMul(x, y) ==
  IF x.mag = <<>> \/ y.mag = <<>> THEN DZero
  ELSE [neg |-> x.neg # y.neg, mag |-> Mul(x.mag, y.mag), e |-> x.e + y.e]
DSqr(x) == DMul(x, x)

\* comparison of magnitudes |x| ? |y|  (-1, 0, 1)
DCmpAbs(x, y) ==
  IF x.mag = <<>> THEN (IF y.mag = <<>> THEN 0 ELSE -1)
  ELSE IF y.mag = <<>> THEN 1
  ELSE LET mx == x.e + BitLen(x.mag)   my == y.e + BitLen(y.mag) IN
       IF mx > my THEN 1 ELSE IF mx < my THEN -1
       ELSE LET e == MinI(x.e, y.e) IN Cmp(Shl(x.mag, x.e - e), Shl(y.mag, y.e - e))

DCmp(x, y) ==
  LET sx == DSign(x)   sy == DSign(y) IN
  IF sx # sy THEN (IF sx > sy THEN 1 ELSE -1)
  ELSE IF sx = 0 THEN 0
  ELSE IF sx > 0 THEN DCmpAbs(x, y) ELSE DCmpAbs(y, x)

DEq(x, y) == DCmp(x, y) = 0
DLeq(x, y) == DCmp(x, y) <= 0
DLt(x, y) == DCmp(x, y) < 0

\* exponent of the most significant bit: 2^DMsb(x) <= |x| < 2^(DMsb(x)+1)   (x # 0)
DMsb(x) == x.e + BitLen(x.mag) - 1
\* exponent of the least significant set bit
DLsb(x) == x.e + Tz(x.mag)

\* reduce to an odd mantissa (or zero)
DNorm(x) == IF x.mag = <<>> THEN DZero
            ELSE LET t == Tz(x.mag) IN [neg |-> x.neg, mag |-> Shr(x.mag, t), e |-> x.e + t]

DIsInt(x) == x.mag = <<>> \/ x.e >= 0 \/ LowZero(x.mag, -x.e)

\* integer part toward zero / fractional part, exact
DTrunc(x) == IF x.e >= 0 THEN x ELSE
             LET q == Shr(x.mag, -x.e) IN IF q = <<>> THEN DZero ELSE [neg |-> x.neg, mag |-> q, e |-> 0]
DFract(x) == DSub(x, DTrunc(x))
DFloor(x) == IF DIsInt(x) THEN x ELSE
             LET t == DTrunc(x) IN IF x.neg THEN DSub(t, DOne) ELSE t
DCeil(x) == IF DIsInt(x) THEN x ELSE
            LET t == DTrunc(x) IN IF x.neg THEN t ELSE DAdd(t, DOne)
\* nearest integer, halves away from zero
DRoundHalfAway(x) ==
  IF DIsInt(x) THEN x ELSE
  LET t == DTrunc(x)
      f2 == DScale2(DAbs(DSub(x, t)), 1)        \* 2*|frac|
  IN IF DCmp(f2, DOne) >= 0 THEN (IF x.neg THEN DSub(t, DOne) ELSE DAdd(t, DOne)) ELSE t

\* is the integer-valued dyadic x odd?
DIntIsOdd(x) == x.mag # <<>> /\ (IF x.e > 0 THEN FALSE ELSE TestBit(x.mag, -x.e))

\* |r - t| * 2^k <= num * |t|   (relative error of r w.r.t. t at most num * 2^-k; t = 0 forces r = 0)
RelErrLeq(r, t, num, k) ==
  DCmp(DScale2(DAbs(DSub(r, t)), k), DMul(DNat(num), DAbs(t))) <= 0
\* |r - t| * 2^k <= num * |s|
AbsErrLeq(r, t, num, k, s) ==
  DCmp(DScale2(DAbs(DSub(r, t)), k), DMul(DNat(num), DAbs(s))) <= 0

DMaxAbs(x, y) == IF DCmpAbs(x, y) >= 0 THEN DAbs(x) ELSE DAbs(y)
=============================================================================
