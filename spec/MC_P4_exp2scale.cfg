SPECIFICATION Spec
CONSTANTS
  P = 4
  EMIN <- EMIN_MID
  EMAX <- EMAX_NARROW
  MODE = "exp2scale"
  E0 <- E0_ZERO
  GAP = 0
  LOW = 12
  WBITS = 8
INVARIANT NoBad
POSTCONDITION Report
CHECK_DEADLOCK FALSE
