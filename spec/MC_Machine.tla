----------------------------- MODULE MC_Machine -----------------------------
(***************************************************************************)
(* Leg A, the "programs" quantifier of C01: the library as a state machine *)
(* over a small format.  One accumulator register holds a TwoFloat; every  *)
(* step applies one transcribed operation (AlgArith) to the accumulator    *)
(* and one operand from a fixed pool (or a unary operation).  TLC explores *)
(* ALL reachable accumulator values (closure under arbitrary chains of     *)
(* operations inside a magnitude window) and checks in every state that    *)
(* the value is normalised, and on every transition that the step          *)
(* satisfies the contract of the operation (the same Contracts operators   *)
(* that validate the real crate's traces).                                 *)
(***************************************************************************)
EXTENDS AlgArith, ContractsConv, SmallFormat, FiniteSets

CONSTANTS WINLO, WINHI          \* the accumulator's high word stays in [2^WINLO, 2^WINHI] (or is zero)

EMIN_WIDE == -14
EMAX_WIDE == 14
WIN_LO == -4
WIN_HI == 4

VARIABLES acc, bad
vars == <<acc, bad>>

MkW(n, e) == RN([neg |-> n < 0, mag |-> FromInt(IF n < 0 THEN -n ELSE n), e |-> e])
T2(h, l) == TF(h, l)
\* operand pool: small integers, a value with a tie low word, a power of two with a quarter-ulp
\* low word of the opposite sign, a fraction, a negative value, an f64 operand pool
Pool == { FromW(MkW(1, 0)), FromW(MkW(3, 0)), FromW(MkW(-5, -2)), FromW(MkW(7, -4)),
          T2(MkW(6, 0), MkW(1, -2)),                 \* 6 + 1/4: even significand (P = 3: 6 = 110b), tie low word
          T2(MkW(4, 0), MkW(-1, -3)),                \* 4 - 1/8: power of two, quarter-ulp below
          T2(MkW(5, -1), MkW(1, -5)) }
WPool == { MkW(1, 0), MkW(-3, -1), MkW(2, 1), MkW(5, -3) }
Seeds == { FromW(MkW(1, 0)), T2(MkW(5, 0), MkW(1, -3)) }

InWindow(x) == x.hi.k = "f" /\ (x.hi.mag = <<>> \/ (x.hi.e + BitLen(x.hi.mag) - 1 >= WINLO /\ x.hi.e + BitLen(x.hi.mag) - 1 <= WINHI))

TFA(x) == [t |-> "tf", x |-> x]
FA(w) == [t |-> "f", w |-> w]
Res(x) == [t |-> "tf", x |-> x]
NoDE == [has |-> FALSE, x |-> TF(Zero(FALSE), Zero(FALSE))]
Real(f) == f \ {Skip}

\* (1 - 32 u^2)^2 v <= r^2 <= (1 + 32 u^2)^2 v
SqrtOK(r, v) == LET lo == DSub(DOne, [neg |-> FALSE, mag |-> <<32>>, e |-> -U2])
                    hi == DAdd(DOne, [neg |-> FALSE, mag |-> <<32>>, e |-> -U2])
                IN ~r.neg /\ DCmp(DMul(DSqr(lo), v), DSqr(r)) <= 0 /\ DCmp(DSqr(r), DMul(DSqr(hi), v)) <= 0
\* one step: [r |-> new accumulator, f |-> violated contract clauses]
Bin(op, x, c) ==
  LET r == CASE op = "add" -> AAddTT(x, c) [] op = "sub" -> ASubTT(x, c) [] op = "mul" -> AMulTT(x, c)
             [] op = "div" -> ADivTT(x, c) [] op = "rem" -> ARemTT(x, c) [] op = "rsub" -> ASubTT(c, x)
             [] op = "rdiv" -> ADivTT(c, x)
      A == IF op = "rsub" \/ op = "rdiv" THEN <<TFA(c), TFA(x)>> ELSE <<TFA(x), TFA(c)>>
      cop == IF op = "rsub" THEN "sub" ELSE IF op = "rdiv" THEN "div" ELSE op
  IN [r |-> r, f |-> Real(ArithFails(cop, A, Res(r), NoDE))]
\* Euclidean division / remainder, min / max, copysign (their contracts: ContractsArith, ContractsBase)
Bin2(op, x, c) ==
  LET r == CASE op = "div_euclid" -> ADivEuclid(x, c) [] op = "rem_euclid" -> ARemEuclid(x, c)
             [] op = "min" -> AMin(x, c) [] op = "max" -> AMax(x, c) [] op = "copysign" -> ACopySign(x, c)
      A == <<TFA(x), TFA(c)>>
      f == IF op \in {"div_euclid", "rem_euclid"} THEN Real(ArithFails(op, A, Res(r), NoDE))
           ELSE IF op \in {"min", "max"} THEN Real(MinMaxFails(op, TFA(x), TFA(c), Res(r)))
           ELSE Real(SignFails(op, A, Res(r)))
  IN [r |-> r, f |-> f]
BinW(op, x, w) ==
  LET r == CASE op = "add" -> AAddTF(x, w) [] op = "sub" -> ASubTF(x, w) [] op = "mul" -> AMulTF(x, w)
             [] op = "div" -> ADivTF(x, w) [] op = "rsub" -> ASubFT(w, x) [] op = "rdiv" -> ADivFT(w, x)
      A == IF op = "rsub" \/ op = "rdiv" THEN <<FA(w), TFA(x)>> ELSE <<TFA(x), FA(w)>>
      cop == IF op = "rsub" THEN "sub" ELSE IF op = "rdiv" THEN "div" ELSE op
  IN [r |-> r, f |-> Real(ArithFails(cop, A, Res(r), NoDE))]
Un(op, x) ==
  LET r == CASE op = "neg" -> ANeg(x) [] op = "abs" -> AAbs(x) [] op = "floor" -> AFloor(x) [] op = "ceil" -> ACeil(x)
             [] op = "round" -> ARound(x) [] op = "trunc" -> ATrunc(x) [] op = "fract" -> AFract(x) [] op = "recip" -> ARecip(x)
             [] op = "sqrt" -> ASqrt(AAbs(x)) [] op = "signum" -> ASignum(x) [] op = "sqr" -> AMulTT(x, x)
      f == IF op \in {"floor", "ceil", "round", "trunc", "fract"} THEN Real(FracFails(op, <<TFA(x)>>, Res(r)))
           ELSE IF op = "recip" THEN Real(ArithFails("recip", <<TFA(x)>>, Res(r), NoDE))
           ELSE IF op = "sqr" THEN Real(ArithFails("mul", <<TFA(x), TFA(x)>>, Res(r), NoDE))
           ELSE IF op = "signum" THEN Real(SignFails("signum", <<TFA(x)>>, Res(r)))
           ELSE IF op = "sqrt" THEN (IF IsZeroTF(x) \/ (Valid(r) /\ SqrtOK(Value(r), DAbs(Value(x)))) THEN {} ELSE {<<"C13", "sqrt_bound">>})
           ELSE {}
  IN [r |-> r, f |-> f]

Bin2Ops == {"div_euclid", "rem_euclid", "min", "max", "copysign"}
BinOps == {"add", "sub", "mul", "div", "rem", "rsub", "rdiv"}
BinWOps == {"add", "sub", "mul", "div", "rsub", "rdiv"}
UnOps == {"neg", "abs", "floor", "ceil", "round", "trunc", "fract", "recip", "sqrt", "signum", "sqr"}
DivOK(op, x, c) == ~(op \in {"div", "rem"} /\ IsZeroTF(c)) /\ ~(op = "rdiv" /\ IsZeroTF(x)) /\ ~(op = "recip" /\ IsZeroTF(x))

Init == acc \in Seeds /\ bad = {}
StepTo(s, tag) == /\ InWindow(s.r)
                  /\ acc' = s.r
                  /\ bad' = IF s.f = {} THEN {} ELSE {<<tag, acc, s.r, s.f>>}
Next == \/ \E op \in BinOps, c \in Pool : DivOK(op, acc, c) /\ StepTo(Bin(op, acc, c), <<op, c>>)
        \/ \E op \in Bin2Ops, c \in Pool : ~(op \in {"div_euclid", "rem_euclid"} /\ (IsZeroTF(c) \/ IsZeroTF(acc))) /\ StepTo(Bin2(op, acc, c), <<op, c>>)
        \/ \E op \in BinWOps, w \in WPool : ~(op = "rdiv" /\ IsZeroTF(acc)) /\ StepTo(BinW(op, acc, w), <<op, w>>)
        \/ \E op \in UnOps : DivOK(op, acc, acc) /\ StepTo(Un(op, acc), <<op>>)
Spec == Init /\ [][Next]_vars

\* C01 as a state invariant over every reachable value, and the per-step contracts
NormalisedInv == Normalised(acc)
NoBad == bad = {}
=============================================================================
