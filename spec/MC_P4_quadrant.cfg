SPECIFICATION Spec
CONSTANTS
  P = 4
  EMIN <- EMIN_WIDE
  EMAX <- EMAX_WIDE
  MODE = "quadrant"
  E0 <- E0_ZERO
  GAP = 6
  LOW = 3
  WBITS = 8
INVARIANT NoBad
POSTCONDITION Report
CHECK_DEADLOCK FALSE
