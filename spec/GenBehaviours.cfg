INIT Init
NEXT Next
CONSTANTS
  P <- F64_P
  EMIN <- F64_EMIN
  EMAX <- F64_EMAX
