---------------------------- MODULE GenBehaviours ----------------------------
(***************************************************************************)
(* Spec -> implementation: TLC enumerates COMPLETE behaviour sets of the   *)
(* small discrete sub-machines of the library and writes them as trace     *)
(* events (calls without results).  The harness replays every call into    *)
(* the real code; the recorded outcomes are then validated like any other  *)
(* trace by Trace.tla.                                                     *)
(*   serde   : every key sequence of length 0..3 over {hi, lo, zz} x every *)
(*             assignment of value classes, in map form; every sequence    *)
(*             form of length 0..3; length-4 maps over a reduced value set *)
(*   compare : every ordered pair of a representative set of valid and     *)
(*             NaN-/inf-bearing values x the seven comparison operators    *)
(***************************************************************************)
EXTENDS DD, Json, IOUtils, TLC, FiniteSets

F64_P == 53
F64_EMIN == -1022
F64_EMAX == 1023

\* JSON shapes of the trace format
JW(w) == [k |-> w.k, s |-> IF w.neg THEN 1 ELSE 0, e |-> w.e, m |-> w.mag]
Ev(fam, op, sp, d, args) == [op |-> op, fam |-> fam, sp |-> sp, cfg |-> "gen", seq |-> 0, d |-> d, a |-> args, res |-> [t |-> "none"]]
GroupEv == [op |-> "group", fam |-> "ctl", seq |-> 0, tag |-> "generated"]
AF(w) == [t |-> "f", w |-> JW(w)]
AFL(ws) == [t |-> "fl", v |-> [i \in 1..Len(ws) |-> JW(ws[i])]]
ASL(ks) == [t |-> "sl", v |-> ks]
AS(s) == [t |-> "s", v |-> s]
AR(i) == [t |-> "r", i |-> i]

\* ---- value classes (binary64 words) ------------------------------------------------

OneW == RN(DOne)
OnePlus == NextUpMag(OneW)                                  \* odd significand
HalfUlp1 == RN(DPow2(-53))                                 \* half an ulp of 1.0: a tie (valid beside the even 1.0)
Tiny == RN(DPow2(-80))
Big == RN(DPow2(-40))                                      \* overlaps a high word of 1.0
VHi == OneW
ValClasses == <<OneW, OnePlus, HalfUlp1, Tiny, Big, Zero(FALSE), Zero(TRUE), Inf(FALSE), NaN>>
ValReduced == <<OneW, HalfUlp1, Big, NaN>>

\* all sequences of length n over the elements of the sequence S
RECURSIVE SeqsOver(_, _)
SeqsOver(S, n) == IF n = 0 THEN {<<>>} ELSE { Append(t, S[i]) : t \in SeqsOver(S, n - 1), i \in 1..Len(S) }
Keys == <<"hi", "lo", "zz">>

SerdeEvents ==
  LET mapsUpTo3 == UNION { { Ev("serde", "de_map", "value", -1, <<ASL(ks), AFL(vs)>>) : ks \in SeqsOver(Keys, n), vs \in SeqsOver(ValClasses, n) } : n \in 0..2 }
      maps3 == { Ev("serde", "de_map", "value", -1, <<ASL(ks), AFL(vs)>>) : ks \in SeqsOver(Keys, 3), vs \in SeqsOver(ValReduced, 3) }
      maps4 == { Ev("serde", "de_map", "value", -1, <<ASL(ks), AFL(vs)>>) : ks \in SeqsOver(<<"hi", "lo">>, 4), vs \in SeqsOver(<<OneW, HalfUlp1, NaN>>, 4) }
      seqs == UNION { { Ev("serde", "de_seq", "value", -1, <<AFL(vs)>>) : vs \in SeqsOver(ValClasses, n) } : n \in 0..2 }
              \cup { Ev("serde", "de_seq", "value", -1, <<AFL(vs)>>) : vs \in SeqsOver(ValReduced, 3) }
  IN SetToSeq(mapsUpTo3 \cup maps3 \cup maps4 \cup seqs)

\* ---- comparison table -----------------------------------------------------------------
\* representative values, produced through the API: a load (checked constructor) or a constructor call
CmpVals == << <<"load", OneW, Zero(FALSE)>>, <<"load", OneW, Tiny>>, <<"load", OneW, FNeg(Tiny)>>, <<"load", OneW, NextUpMag(Tiny)>>,
              <<"load", OneW, HalfUlp1>>, <<"load", OnePlus, Zero(FALSE)>>, <<"load", OnePlus, Tiny>>,
              <<"load", FNeg(OneW), Zero(FALSE)>>, <<"load", FNeg(OneW), Tiny>>, <<"load", FNeg(OneW), FNeg(Tiny)>>,
              <<"load", Zero(FALSE), Zero(FALSE)>>, <<"load", Zero(TRUE), Zero(FALSE)>>, <<"load", Zero(FALSE), Zero(TRUE)>>, <<"load", Zero(TRUE), Zero(TRUE)>>,
              <<"load", Tiny, Zero(FALSE)>>, <<"load", MaxFinite(FALSE), Zero(FALSE)>>,
              <<"new_add", Inf(FALSE), OneW>>,               \* (inf, NaN)
              <<"new_add", Inf(TRUE), OneW>>,                \* (-inf, NaN)
              <<"new_add", NaN, OneW>>,                      \* (NaN, NaN)
              <<"new_div", OneW, Zero(FALSE)>>,              \* inf
              <<"new_div", FNeg(OneW), Zero(FALSE)>>,        \* -inf
              <<"new_mul", MaxFinite(FALSE), MaxFinite(FALSE)>> >>
CmpF64 == <<OneW, OnePlus, FNeg(OneW), Zero(FALSE), Zero(TRUE), Inf(FALSE), Inf(TRUE), NaN, Tiny>>
MakeVal(v, d) == IF v[1] = "load" THEN Ev("load", "try_from", "tuple", d, <<AF(v[2]), AF(v[3])>>)
                 ELSE Ev("arith", v[1], "inh", d, <<AF(v[2]), AF(v[3])>>)
CmpOps == <<"eq", "ne", "lt", "le", "gt", "ge", "pcmp">>
CompareEvents ==
  LET pairGroup(i, j) == <<GroupEv, MakeVal(CmpVals[i], 0), MakeVal(CmpVals[j], 1)>>
                         \o [k \in 1..Len(CmpOps) |-> Ev("base", CmpOps[k], "op", -1, <<AR(0), AR(1)>>)]
                         \o <<Ev("base", "min", "inh", 2, <<AR(0), AR(1)>>), Ev("base", "max", "inh", 2, <<AR(0), AR(1)>>)>>
      f64Group(i, c) == <<GroupEv, MakeVal(CmpVals[i], 0)>>
                        \o [k \in 1..Len(CmpOps) |-> Ev("base", CmpOps[k], "op", -1, <<AR(0), AF(CmpF64[c])>>)]
                        \o [k \in 1..Len(CmpOps) |-> Ev("base", CmpOps[k], "op", -1, <<AF(CmpF64[c]), AR(0)>>)]
      n == Len(CmpVals)
  IN FoldLeft(LAMBDA acc, p : acc \o pairGroup(p[1], p[2]), <<>>, SetToSeq((1..n) \X (1..n)))
     \o FoldLeft(LAMBDA acc, p : acc \o f64Group(p[1], p[2]), <<>>, SetToSeq((1..n) \X (1..Len(CmpF64))))

Which == IOEnv.GEN
Events == IF Which = "serde" THEN <<GroupEv>> \o SerdeEvents ELSE CompareEvents
ASSUME ndJsonSerialize(IOEnv.GENOUT, Events) /\ PrintT(<<"GENERATED", Which, Len(Events)>>)

VARIABLE x
Init == x = 0
Next == UNCHANGED x
=============================================================================
