---------------------------- MODULE ContractsBase ----------------------------
(***************************************************************************)
(* Contracts for C07 (validity predicate, checked construction) and C06    *)
(* (comparison, equality, min/max, sign queries).                          *)
(***************************************************************************)
EXTENDS ContractsArith

BoolRes(r, v) == r.t = "b" /\ r.v = v

\* --------------------------------------------------------------------------
\* C07
IsMaxMag(w) == w = MaxFinite(FALSE) \/ w = MaxFinite(TRUE)
TryFromFails(a, b, r) ==
  \* C01: whatever the checked constructor hands out for finite words must be normalised
  (IF r.t = "tf" /\ a.k = "f" /\ b.k = "f" THEN C01Of(r) ELSE {}) \cup
  IF NoOverlapDef(a, b)
  THEN Chk(r.t = "tf", "C07", "valid_pair_rejected")
       \cup (IF r.t = "tf" THEN Chk(r.x = TF(a, b), "C07", "words_not_preserved") ELSE {})
  ELSE Chk(r.t = "err", "C07", "invalid_pair_accepted")
       \* C12: MAX / MIN are the extreme values for which is_valid() can hold: nothing beside +-f64::MAX beyond them is accepted
       \cup (IF IsMaxMag(a) THEN Chk(r.t = "err", "C12", "value_beyond_max_min_accepted") ELSE {})

BaseC07Fails(op, A, r) ==
  CASE op = "try_from" -> TryFromFails(A[1].w, A[2].w, r)
    [] op = "no_overlap" -> Chk(BoolRes(r, NoOverlapDef(A[1].w, A[2].w)), "C07", "no_overlap_differs_from_definition")
                            \cup (IF IsMaxMag(A[1].w) /\ ~NoOverlapDef(A[1].w, A[2].w) THEN Chk(BoolRes(r, FALSE), "C12", "value_beyond_max_min_accepted") ELSE {})
    [] op = "is_valid" -> Chk(BoolRes(r, Valid(A[1].x)), "C07", "is_valid_differs_from_definition")
                          \cup (IF IsMaxMag(A[1].x.hi) /\ ~Valid(A[1].x) THEN Chk(BoolRes(r, FALSE), "C12", "value_beyond_max_min_accepted") ELSE {})
    [] op = "into_pair" -> Chk(r.t = "ff" /\ r.w = A[1].x.hi /\ r.w2 = A[1].x.lo, "C07", "words_not_returned")

\* --------------------------------------------------------------------------
\* C06
HasNaNWord(x) == x.hi.k = "n" \/ x.lo.k = "n"

\* exact three-way comparison of a valid TwoFloat with an f64 word: -1, 0, 1, 2 (unordered)
CmpTFWord(x, c) ==
  IF c.k = "n" THEN 2
  ELSE IF c.k = "i" THEN (IF c.neg THEN 1 ELSE -1)
  ELSE DCmp(Value(x), D(c))
Flip(o) == IF o = 2 THEN 2 ELSE -o

\* what outcome o (of the exact comparison) means for each operator
OpOutcome(op, o) ==
  CASE op = "eq" -> o = 0
    [] op = "ne" -> o # 0
    [] op = "lt" -> o = -1
    [] op = "le" -> o = -1 \/ o = 0
    [] op = "gt" -> o = 1
    [] op = "ge" -> o = 1 \/ o = 0

CmpResOK(op, r, o) ==
  IF op = "pcmp" THEN r.t = "ord" /\ r.v = o ELSE BoolRes(r, OpOutcome(op, o))

CompareFails(op, a, b, r) ==
  IF a.t = "tf" /\ b.t = "tf" THEN
       IF HasNaNWord(a.x) \/ HasNaNWord(b.x)
       THEN Chk(CmpResOK(op, r, 2), "C06", "nan_word_not_unordered")
            \* C12: the NAN constant compares unequal to itself
            \cup (IF a.x = TF(NaN, NaN) /\ b.x = TF(NaN, NaN) /\ op \in {"eq", "ne", "pcmp"}
                  THEN Chk(CmpResOK(op, r, 2), "C12", "nan_equal_to_itself") ELSE {})
       ELSE IF Valid(a.x) /\ Valid(b.x) THEN Chk(CmpResOK(op, r, DCmp(Value(a.x), Value(b.x))), "C06", "compare_differs_from_exact")
       ELSE {Skip}
  ELSE IF a.t = "tf" /\ b.t = "f" THEN
       IF Valid(a.x) THEN Chk(CmpResOK(op, r, CmpTFWord(a.x, b.w)), "C06", "compare_f64_differs_from_exact") ELSE {Skip}
  ELSE IF a.t = "f" /\ b.t = "tf" THEN
       IF Valid(b.x) THEN Chk(CmpResOK(op, r, Flip(CmpTFWord(b.x, a.w))), "C06", "compare_f64_differs_from_exact") ELSE {Skip}
  ELSE {<<"tool", "bad_compare_operands">>}

MinMaxFails(op, a, b, r) ==
  IF r.t # "tf" THEN Fail("C06", "panic")
  ELSE LET va == Valid(a.x)   vb == Valid(b.x) IN
       IF va /\ vb THEN
            LET c == DCmp(Value(a.x), Value(b.x))
                want == IF op = "min" THEN (IF c < 0 THEN {a.x} ELSE IF c > 0 THEN {b.x} ELSE {a.x, b.x})
                                      ELSE (IF c > 0 THEN {a.x} ELSE IF c < 0 THEN {b.x} ELSE {a.x, b.x})
            IN Chk(r.x \in want, "C06", "minmax_wrong_operand") \cup C01Of(r)
       ELSE IF va THEN Chk(r.x = a.x, "C06", "minmax_invalid_not_skipped")
       ELSE IF vb THEN Chk(r.x = b.x, "C06", "minmax_invalid_not_skipped")
       ELSE {Skip}

SignFails(op, A, r) ==
  LET x == A[1].x IN
  IF ~Valid(x) THEN {Skip}
  ELSE LET v == Value(x)   s == DSign(v) IN
  CASE op = "abs" ->
         IF r.t # "tf" THEN Fail("C06", "panic")
         ELSE C01Of(r) \cup Chk(Valid(r.x) /\ DCmp(Value(r.x), DAbs(v)) = 0, "C06", "abs_value")
    [] op = "is_sign_negative" -> IF s = 0 THEN {Skip} ELSE Chk(BoolRes(r, s < 0), "C06", "sign_query")
    [] op = "is_sign_positive" -> IF s = 0 THEN {Skip} ELSE Chk(BoolRes(r, s > 0), "C06", "sign_query")
    [] op = "signum" ->
         IF r.t # "tf" THEN Fail("C06", "panic")
         ELSE C01Of(r) \cup (IF s = 0 THEN {} ELSE Chk(Valid(r.x) /\ DCmp(Value(r.x), DInt(s)) = 0, "C06", "signum_value"))
    [] op = "copysign" ->
         IF r.t # "tf" THEN Fail("C06", "panic")
         ELSE C01Of(r)
              \cup (LET y == A[2].x IN
                    IF s = 0 \/ ~Valid(y) \/ DSign(Value(y)) = 0 THEN {}
                    ELSE Chk(Valid(r.x) /\ DCmp(Value(r.x), IF DSign(Value(y)) < 0 THEN DNeg(DAbs(v)) ELSE DAbs(v)) = 0,
                             "C06", "copysign_value"))

BaseFails(op, A, r) ==
  CASE op \in {"try_from", "no_overlap", "is_valid", "into_pair"} -> BaseC07Fails(op, A, r)
    [] op \in {"eq", "ne", "lt", "le", "gt", "ge", "pcmp"} -> CompareFails(op, A[1], A[2], r)
    [] op \in {"min", "max"} -> MinMaxFails(op, A[1], A[2], r)
    [] op \in {"abs", "is_sign_negative", "is_sign_positive", "signum", "copysign"} -> SignFails(op, A, r)
    [] OTHER -> {<<"tool", "unknown_base_op">>}
=============================================================================
