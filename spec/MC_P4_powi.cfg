SPECIFICATION Spec
CONSTANTS
  P = 4
  EMIN <- EMIN_WIDE
  EMAX <- EMAX_WIDE
  MODE = "powi"
  E0 <- E0_M3
  GAP = 0
  LOW = 12
  WBITS = 8
INVARIANT NoBad
POSTCONDITION Report
CHECK_DEADLOCK FALSE
