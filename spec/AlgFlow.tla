------------------------------- MODULE AlgFlow -------------------------------
(***************************************************************************)
(* (A) Control flow of the elementary functions: argument reductions,      *)
(* range switches, table-index computations and their assertions,          *)
(* transcribed with the real double-double operations of AlgArith (the     *)
(* polynomial / table kernels are not modelled).  Checked exhaustively in  *)
(* small formats by MC_Small.                                              *)
(***************************************************************************)
EXTENDS AlgArith, RoundDD

W2 == RN(DInt(2))
W4 == RN(DInt(4))
W128 == RN(DInt(128))
WQuarter == RN(DPow2(-2))

\* ---- src/functions/explog.rs: exp, x = y/2 + z --------------------------------------
\* current code (after fix 433c96f): y = (2.0 * self).round().hi()
ExpSplitY(x) == ARound(AMulFT(W2, x)).hi
\* the pinned code: y = round(2.0 * self.hi())
ExpSplitYOld(x) == FRound(FMul(W2, x.hi))
ExpZ(x, y) == ASubTF(x, FDiv(y, W2))
\* expm1_quarter: assert |z.hi| <= 1/4; n = round(128 z.hi); x0 = n/128; y' = z - x0; expm1_128th asserts |n| <= 32
ExpQuarterOK(z) == FLe(FAbs(z.hi), WQuarter)
ExpN(z) == FRound(FMul(W128, z.hi))
ExpNOK(z) == DCmpAbs(D(ExpN(z)), DInt(32)) <= 0
ExpResidual(z) == ASubTF(z, FDiv(ExpN(z), W128))
\* the Taylor argument stays within 1/256 (+ the low word)
ExpResidualOK(z) == LET r == ExpResidual(z) IN
                    r.hi.k = "f" /\ r.lo.k = "f" /\ DCmpAbs(Value(r), DAdd(DPow2(-8), DPow2(-P - 1))) <= 0
\* the split is exact: y/2 + z = x
ExpSplitExact(x, y, z) == z.hi.k = "f" /\ z.lo.k = "f" /\ DCmp(DAdd(DScale2(D(y), -1), Value(z)), Value(x)) = 0

ExpFlowBad(x, y) ==
  LET z == ExpZ(x, y) IN
  (IF ExpQuarterOK(z) THEN {} ELSE {<<"assert_quarter", x, y, z>>})
  \cup (IF ExpNOK(z) THEN {} ELSE {<<"assert_table_index", x, y, z>>})
  \cup (IF ExpResidualOK(z) THEN {} ELSE {<<"taylor_argument", x, y, z>>})
  \cup (IF ExpSplitExact(x, y, z) THEN {} ELSE {<<"split_not_exact", x, y, z>>})

\* ---- src/functions/trigonometry.rs:252-264  quadrant --------------------------------
PiHalfTF == CorrectDD(PiHalfB).x           \* the double-double pi/2 of this format
PiQuarterTF == CorrectDD(BScale2(PiB, -2)).x
LtTT(a, b) == LET c == FCmp(a.hi, b.hi) IN IF c = 0 THEN FCmp(a.lo, b.lo) = -1 ELSE c = -1
\* returns [q |-> quadrant 0..3 or -1 for the NAN arm, quot |-> the rounded quotient]
QuadrantOf(x) ==
  IF LtTT(AAbs(x), PiQuarterTF) THEN [q |-> 0, quot |-> FromW(Zero(FALSE)), small |-> TRUE]
  ELSE LET quot == ARound(ADivTT(x, PiHalfTF))
           q4 == ARemTF(quot, W4)
           t == DTrunc(Value(q4))                       \* i8::try_from(TwoFloat): truncation + range
           inrange == q4.hi.k = "f" /\ q4.lo.k = "f" /\ DCmpAbs(t, DInt(127)) <= 0
           ti == IF t.mag = <<>> THEN 0 ELSE IF t.neg THEN -ToInt(Shl(t.mag, t.e)) ELSE ToInt(Shl(t.mag, t.e))
       IN [q |-> IF ~inrange THEN -1 ELSE IF ti >= 0 THEN ti ELSE IF ti >= -4 THEN 4 + ti ELSE -1,
           quot |-> quot, small |-> FALSE]
\* exact q mod 4 (mathematical, 0..3) of an integer-valued dyadic
Mod4(d) == LET m == IF d.mag = <<>> THEN 0
                    ELSE IF d.e >= 2 THEN 0
                    ELSE LET v == IF d.e >= 0 THEN Shl(d.mag, d.e) ELSE Shr(d.mag, -d.e) IN Limb(v, 1) % 4
            IN IF d.neg THEN (4 - m) % 4 ELSE m
QuadrantBad(x) ==
  LET r == QuadrantOf(x) IN
  IF r.small THEN {}
  ELSE (IF Valid(r.quot) /\ DIsInt(Value(r.quot)) THEN {} ELSE {<<"quotient_not_integer", x, r>>})
       \cup (IF r.q \in 0..3 THEN {} ELSE {<<"nan_arm_reached", x, r>>})
       \cup (IF Valid(r.quot) /\ DIsInt(Value(r.quot)) /\ r.q # Mod4(Value(r.quot)) THEN {<<"quadrant_not_q_mod_4", x, r>>} ELSE {})

\* ---- src/functions/trigonometry.rs:460-492  atan: interval dispatch -------------------------
\* k = 4|x| + 0.25 in double-double arithmetic; the branch taken: 0: k <= 2, 1: k < 3, 2: k < 5, 3: k < 10, 4: else
\* (TwoFloat compared with an f64: high word first, then the low word against 0)
CmpTFW(k, w) == LET c == FCmp(k.hi, w) IN IF c = 0 THEN FCmp(k.lo, Zero(FALSE)) ELSE c
AtanBranch(x) ==
  LET k == AAddTF(AMulFT(W4, AAbs(x)), WQuarter)
      le(n) == CmpTFW(k, RN(DInt(n))) \in {-1, 0}
      lt(n) == CmpTFW(k, RN(DInt(n))) = -1
  IN IF le(2) THEN 0 ELSE IF lt(3) THEN 1 ELSE IF lt(5) THEN 2 ELSE IF lt(10) THEN 3 ELSE 4
\* the same decision on the exact value: |v| <= 7/16, < 11/16, < 19/16, < 39/16
AtanBranchExact(v) ==
  LET a16 == DScale2(DAbs(v), 4) IN        \* 16 |v|
  IF DCmp(a16, DInt(7)) <= 0 THEN 0 ELSE IF DCmp(a16, DInt(11)) < 0 THEN 1
  ELSE IF DCmp(a16, DInt(19)) < 0 THEN 2 ELSE IF DCmp(a16, DInt(39)) < 0 THEN 3 ELSE 4
AtanFlowBad(x) == IF AtanBranch(x) = AtanBranchExact(Value(x)) THEN {} ELSE {<<"atan_branch", x, AtanBranch(x), AtanBranchExact(Value(x))>>}

\* ---- src/functions/power.rs:91-103  powf: integrality test and parity of a negative base's exponent ----
\* returns "nan" (non-integer exponent), "even" or "odd"
PowfParity(y) ==
  IF ~IsZeroNum(FModfFrac(y.hi)) \/ ~IsZeroNum(FModfFrac(y.lo)) THEN "nan"
  ELSE LET lt == IF IsZeroNum(FTrunc(y.lo)) THEN FTrunc(y.hi) ELSE FTrunc(y.lo) IN
       \* low_trunc % 2.0 == 0.0  (f64 remainder of an integer-valued word by 2 is exact)
       IF lt.k = "f" /\ ~DIntIsOdd(D(lt)) THEN "even" ELSE "odd"
PowfParityExact(v) == IF ~DIsInt(v) THEN "nan" ELSE IF DIntIsOdd(v) THEN "odd" ELSE "even"
PowfFlowBad(y) == IF PowfParity(y) = PowfParityExact(Value(y)) THEN {} ELSE {<<"powf_parity", y, PowfParity(y), PowfParityExact(Value(y))>>}

\* ---- src/functions/explog.rs:135-149 mul_pow2, :1028-1063 exp2 --------------------------------
\* The literal thresholds of the source are properties of binary64; the model uses the format's own:
\*   -1074 -> QMIN (exponent of the least subnormal), -1022 -> EMIN, 1023 -> EMAX, 1024 -> EMAX + 1.
\* from_bits(1 << (y + 1074)) and from_bits((y + 1023) << 52) are exactly 2^y.
RECURSIVE MulPow2(_, _)
MulPow2(x, y) ==
  IF y < QMIN THEN MulPow2(FMul(x, RN(DPow2(QMIN))), y - QMIN)
  ELSE IF y < EMAX + 1 THEN FMul(x, RN(DPow2(y)))
  ELSE MulPow2(FMul(x, RN(DPow2(EMAX))), y - EMAX)
\* the pinned code: Self { hi: mul_pow2(r1.hi, k), lo: mul_pow2(r1.lo, k) }
Exp2ScaleOld(r1, k) == TF(MulPow2(r1.hi, k), MulPow2(r1.lo, k))
\* the current code renormalises the two scaled words
Exp2Scale(r1, k) == F2S(MulPow2(r1.hi, k), MulPow2(r1.lo, k))
\* r1 is any normalised pair in [1/2, 2) (a superset of the values 2^t, |t| <= 1/2 + ulp, the kernel returns)
Exp2ScaleBad(r1, k, res) ==
  IF res.hi.k # "f" THEN (IF k + 1 >= EMAX THEN {} ELSE {<<"scale_overflow", r1, k, res>>})
  ELSE (IF Normalised(res) THEN {} ELSE {<<"scaled_pair_not_normalised", r1, k, res>>})
       \* each word is rounded at most once, and only below the normal range
       \cup (IF res.lo.k = "f" /\ DCmpAbs(DSub(Value(res), DScale2(Value(r1), k)), DPow2(QMIN)) <= 0 THEN {} ELSE {<<"scaled_value", r1, k, res>>})
       \cup (IF r1.hi.e + k >= QMIN /\ (IsZeroW(r1.lo) \/ r1.lo.e + k >= QMIN) /\ ~(res.lo.k = "f" /\ DCmp(Value(res), DScale2(Value(r1), k)) = 0) THEN {<<"scaling_not_exact", r1, k, res>>} ELSE {})

\* the range switch and the reduction x = k + t of exp2
Exp2K(x) == FRound(x.hi)
Exp2T(x) == ASubTF(x, Exp2K(x))
Exp2Branch(x) == IF CmpTFW(x, RN(DInt(QMIN))) = -1 THEN "zero" ELSE IF CmpTFW(x, RN(DInt(EMAX))) \in {0, 1} THEN "inf" ELSE "main"
\* The kernel (Taylor series and nine squarings) is not modelled: whatever normalised pair in [1/2, 2) it returns
\* is covered by Exp2ScaleBad, which quantifies over all of them; here the obligations of the reduction itself.
Exp2FlowBad(x) ==
  IF Exp2Branch(x) # "main" THEN {}
  ELSE LET k == Exp2K(x)   t == Exp2T(x)   kd == D(k)
       IN (IF DIsInt(kd) /\ DCmp(kd, DInt(QMIN)) >= 0 /\ DCmp(kd, DInt(EMAX)) <= 0 THEN {} ELSE {<<"k_outside_mul_pow2_single_step", x, k>>})
          \cup (IF t.hi.k = "f" /\ t.lo.k = "f" /\ Valid(t) /\ DCmp(DAdd(Value(t), kd), Value(x)) = 0 THEN {} ELSE {<<"reduction_not_exact", x, k, t>>})
          \* 2^t stays inside [1/2, 2): |t| <= 1/2 + half an ulp of the high word of x
          \cup (IF t.hi.k = "f" /\ t.lo.k = "f" /\ DCmpAbs(Value(t), DAdd(DPow2(-1), DAbs(D(x.lo)))) <= 0 THEN {} ELSE {<<"reduced_argument_range", x, k, t>>})

\* ---- src/functions/trigonometry.rs  asin: domain test, direct / complementary branch ------------------
\* abs_val > 1.0 -> NAN; abs_val <= 0.5 -> restricted_asin(x); else pi/2 - 2 restricted_asin(sqrt((1 - |x|) / 2))
AsinBranch(x) == LET a == AAbs(x) IN
                 IF CmpTFW(a, One(FALSE)) = 1 THEN "nan" ELSE IF CmpTFW(a, HalfW) \in {-1, 0} THEN "direct" ELSE "compl"
AsinBranchExact(v) == IF DCmpAbs(v, DOne) > 0 THEN "nan" ELSE IF DCmpAbs(v, DPow2(-1)) <= 0 THEN "direct" ELSE "compl"
AsinComplArg(x) == ASqrt(ADivTF(ASubFT(One(FALSE), AAbs(x)), W2))
AsinFlowBad(x) ==
  (IF AsinBranch(x) = AsinBranchExact(Value(x)) THEN {} ELSE {<<"asin_branch", x, AsinBranch(x)>>})
  \cup (IF AsinBranch(x) # "compl" THEN {}
        ELSE LET t == AsinComplArg(x)
                 want == DScale2(DSub(DOne, DAbs(Value(x))), -1)            \* (1 - |x|) / 2, exact
             IN (IF Valid(t) /\ ~Value(t).neg /\ DCmp(Value(t), DPow2(-1)) <= 0 THEN {} ELSE {<<"asin_reduced_argument_range", x, t>>})
                \* t^2 within 40 * 2^-2P relative of (1 - |x|)/2: the polynomial's argument is the intended one
                \* (only where (1 - |x|)/2 and the low word of its root are normal numbers: below that the
                \* halving / the root underflow, which at binary64 moves asin by less than 2^-500)
                \cup (IF want.mag = <<>> \/ DMsb(want) < EMIN + 4 * P
                         \/ (Valid(t) /\ DCmpAbs(DSub(DSqr(Value(t)), want), DMul([neg |-> FALSE, mag |-> <<80>>, e |-> -2 * P], want)) <= 0)
                      THEN {} ELSE {<<"asin_reduced_argument_value", x, t>>}))
=============================================================================
