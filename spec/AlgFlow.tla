------------------------------- MODULE AlgFlow -------------------------------
(***************************************************************************)
(* (A) Control flow of the elementary functions: argument reductions,      *)
(* range switches, table-index computations and their assertions,          *)
(* transcribed with the real double-double operations of AlgArith (the     *)
(* polynomial / table kernels are not modelled).  Checked exhaustively in  *)
(* small formats by MC_Small.                                              *)
(***************************************************************************)
EXTENDS AlgArith, RoundDD

W2 == RN(DInt(2))
W4 == RN(DInt(4))
W128 == RN(DInt(128))
WQuarter == RN(DPow2(-2))

\* ---- src/functions/explog.rs: exp, x = y/2 + z --------------------------------------
\* current code (after fix 433c96f): y = (2.0 * self).round().hi()
ExpSplitY(x) == ARound(AMulFT(W2, x)).hi
\* the pinned code: y = round(2.0 * self.hi())
ExpSplitYOld(x) == FRound(FMul(W2, x.hi))
ExpZ(x, y) == ASubTF(x, FDiv(y, W2))
\* expm1_quarter: assert |z.hi| <= 1/4; n = round(128 z.hi); x0 = n/128; y' = z - x0; expm1_128th asserts |n| <= 32
ExpQuarterOK(z) == FLe(FAbs(z.hi), WQuarter)
ExpN(z) == FRound(FMul(W128, z.hi))
ExpNOK(z) == DCmpAbs(D(ExpN(z)), DInt(32)) <= 0
ExpResidual(z) == ASubTF(z, FDiv(ExpN(z), W128))
\* the Taylor argument stays within 1/256 (+ the low word)
ExpResidualOK(z) == LET r == ExpResidual(z) IN
                    r.hi.k = "f" /\ r.lo.k = "f" /\ DCmpAbs(Value(r), DAdd(DPow2(-8), DPow2(-P - 1))) <= 0
\* the split is exact: y/2 + z = x
ExpSplitExact(x, y, z) == z.hi.k = "f" /\ z.lo.k = "f" /\ DCmp(DAdd(DScale2(D(y), -1), Value(z)), Value(x)) = 0

ExpFlowBad(x, y) ==
  LET z == ExpZ(x, y) IN
  (IF ExpQuarterOK(z) THEN {} ELSE {<<"assert_quarter", x, y, z>>})
  \cup (IF ExpNOK(z) THEN {} ELSE {<<"assert_table_index", x, y, z>>})
  \cup (IF ExpResidualOK(z) THEN {} ELSE {<<"taylor_argument", x, y, z>>})
  \cup (IF ExpSplitExact(x, y, z) THEN {} ELSE {<<"split_not_exact", x, y, z>>})

\* ---- src/functions/trigonometry.rs:252-264  quadrant --------------------------------
PiHalfTF == CorrectDD(PiHalfB).x           \* the double-double pi/2 of this format
PiQuarterTF == CorrectDD(BScale2(PiB, -2)).x
LtTT(a, b) == LET c == FCmp(a.hi, b.hi) IN IF c = 0 THEN FCmp(a.lo, b.lo) = -1 ELSE c = -1
\* returns [q |-> quadrant 0..3 or -1 for the NAN arm, quot |-> the rounded quotient]
QuadrantOf(x) ==
  IF LtTT(AAbs(x), PiQuarterTF) THEN [q |-> 0, quot |-> FromW(Zero(FALSE)), small |-> TRUE]
  ELSE LET quot == ARound(ADivTT(x, PiHalfTF))
           q4 == ARemTF(quot, W4)
           t == DTrunc(Value(q4))                       \* i8::try_from(TwoFloat): truncation + range
           inrange == q4.hi.k = "f" /\ q4.lo.k = "f" /\ DCmpAbs(t, DInt(127)) <= 0
           ti == IF t.mag = <<>> THEN 0 ELSE IF t.neg THEN -ToInt(Shl(t.mag, t.e)) ELSE ToInt(Shl(t.mag, t.e))
       IN [q |-> IF ~inrange THEN -1 ELSE IF ti >= 0 THEN ti ELSE IF ti >= -4 THEN 4 + ti ELSE -1,
           quot |-> quot, small |-> FALSE]
\* exact q mod 4 (mathematical, 0..3) of an integer-valued dyadic
Mod4(d) == LET m == IF d.mag = <<>> THEN 0
                    ELSE IF d.e >= 2 THEN 0
                    ELSE LET v == IF d.e >= 0 THEN Shl(d.mag, d.e) ELSE Shr(d.mag, -d.e) IN Limb(v, 1) % 4
            IN IF d.neg THEN (4 - m) % 4 ELSE m
QuadrantBad(x) ==
  LET r == QuadrantOf(x) IN
  IF r.small THEN {}
  ELSE (IF Valid(r.quot) /\ DIsInt(Value(r.quot)) THEN {} ELSE {<<"quotient_not_integer", x, r>>})
       \cup (IF r.q \in 0..3 THEN {} ELSE {<<"nan_arm_reached", x, r>>})
       \cup (IF Valid(r.quot) /\ DIsInt(Value(r.quot)) /\ r.q # Mod4(Value(r.quot)) THEN {<<"quadrant_not_q_mod_4", x, r>>} ELSE {})

\* ---- src/functions/trigonometry.rs:460-492  atan: interval dispatch -------------------------
\* k = 4|x| + 0.25 in double-double arithmetic; the branch taken: 0: k <= 2, 1: k < 3, 2: k < 5, 3: k < 10, 4: else
\* (TwoFloat compared with an f64: high word first, then the low word against 0)
CmpTFW(k, w) == LET c == FCmp(k.hi, w) IN IF c = 0 THEN FCmp(k.lo, Zero(FALSE)) ELSE c
AtanBranch(x) ==
  LET k == AAddTF(AMulFT(W4, AAbs(x)), WQuarter)
      le(n) == CmpTFW(k, RN(DInt(n))) \in {-1, 0}
      lt(n) == CmpTFW(k, RN(DInt(n))) = -1
  IN IF le(2) THEN 0 ELSE IF lt(3) THEN 1 ELSE IF lt(5) THEN 2 ELSE IF lt(10) THEN 3 ELSE 4
\* the same decision on the exact value: |v| <= 7/16, < 11/16, < 19/16, < 39/16
AtanBranchExact(v) ==
  LET a16 == DScale2(DAbs(v), 4) IN        \* 16 |v|
  IF DCmp(a16, DInt(7)) <= 0 THEN 0 ELSE IF DCmp(a16, DInt(11)) < 0 THEN 1
  ELSE IF DCmp(a16, DInt(19)) < 0 THEN 2 ELSE IF DCmp(a16, DInt(39)) < 0 THEN 3 ELSE 4
AtanFlowBad(x) == IF AtanBranch(x) = AtanBranchExact(Value(x)) THEN {} ELSE {<<"atan_branch", x, AtanBranch(x), AtanBranchExact(Value(x))>>}

\* ---- src/functions/power.rs:91-103  powf: integrality test and parity of a negative base's exponent ----
\* returns "nan" (non-integer exponent), "even" or "odd"
PowfParity(y) ==
  IF ~IsZeroNum(FModfFrac(y.hi)) \/ ~IsZeroNum(FModfFrac(y.lo)) THEN "nan"
  ELSE LET lt == IF IsZeroNum(FTrunc(y.lo)) THEN FTrunc(y.hi) ELSE FTrunc(y.lo) IN
       \* low_trunc % 2.0 == 0.0  (f64 remainder of an integer-valued word by 2 is exact)
       IF lt.k = "f" /\ ~DIntIsOdd(D(lt)) THEN "even" ELSE "odd"
PowfParityExact(v) == IF ~DIsInt(v) THEN "nan" ELSE IF DIntIsOdd(v) THEN "odd" ELSE "even"
PowfFlowBad(y) == IF PowfParity(y) = PowfParityExact(Value(y)) THEN {} ELSE {<<"powf_parity", y, PowfParity(y), PowfParityExact(Value(y))>>}
=============================================================================
