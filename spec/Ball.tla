-------------------------------- MODULE Ball --------------------------------
(***************************************************************************)
(* Rigorous enclosures of real numbers: a ball [m, r] is a dyadic midpoint *)
(* m (mantissa kept to at most K limbs) together with a radius bound       *)
(* r = [m, e] meaning |x - m| <= r.m * 2^r.e with 0 <= r.m < 2^15 (one     *)
(* limb; every radius operation rounds up).  r.m = 0 means exact.          *)
(* Every result ball contains every value that the operation can produce   *)
(* from points of the operand balls.  Three-valued comparisons against     *)
(* exact dyadics and between balls: "yes", "no", "undecided".              *)
(***************************************************************************)
EXTENDS Dyadic

K == 13                      \* limbs kept in a midpoint (195 bits)

\* ---- radii ----------------------------------------------------------------------------
RZero == [m |-> 0, e |-> 0]
RPow2(k) == [m |-> 1, e |-> k]
CeilShr(v, s) == IF s <= 0 THEN v ELSE IF s >= 31 THEN (IF v = 0 THEN 0 ELSE 1) ELSE (v + P2(s) - 1) \div P2(s)
\* renormalise a radius mantissa v < 2^31 to < 2^15, rounding up
RNorm(v, e) == IF v < B THEN [m |-> v, e |-> e]
               ELSE LET s == BitLenLimb(v \div B) IN
                    LET w == CeilShr(v, s) IN
                    IF w < B THEN [m |-> w, e |-> e + s] ELSE [m |-> CeilShr(w, 1), e |-> e + s + 1]
RAdd(a, b) == IF a.m = 0 THEN b ELSE IF b.m = 0 THEN a
              ELSE IF a.e >= b.e THEN RNorm(a.m + CeilShr(b.m, a.e - b.e), a.e)
              ELSE RNorm(b.m + CeilShr(a.m, b.e - a.e), b.e)
RMul(a, b) == IF a.m = 0 \/ b.m = 0 THEN RZero ELSE RNorm(a.m * b.m, a.e + b.e)
RScale(a, k) == IF a.m = 0 THEN a ELSE [a EXCEPT !.e = @ + k]
\* an upper bound of |d| for a dyadic d, as a radius
RAbsD(d) == IF d.mag = <<>> THEN RZero
            ELSE LET n == Len(d.mag) IN
                 IF n = 1 THEN [m |-> d.mag[1], e |-> d.e]           \* < 2^15, exact
                 ELSE RNorm(d.mag[n] * B + d.mag[n - 1] + 1, d.e + W * (n - 2))
RAsD(r) == IF r.m = 0 THEN DZero ELSE [neg |-> FALSE, mag |-> <<r.m>>, e |-> r.e]
\* exponent k with r < 2^k  (r # 0)
RExp(r) == r.e + BitLenLimb(r.m)

BallOf(m, r) == [m |-> m, r |-> r]
BExact(m) == [m |-> m, r |-> RZero]
BInt(n) == BExact(DInt(n))
IsExactB(x) == x.r.m = 0
MagExp(m) == m.e + BitLen(m.mag)                     \* |m| < 2^MagExp  (m # 0)

\* keep at most K limbs of the midpoint (truncation toward zero), widening the radius
BNorm(x) ==
  LET n == Len(x.m.mag) IN
  IF n <= K THEN x
  ELSE LET d == n - K IN
       [m |-> [neg |-> x.m.neg, mag |-> SubSeq(x.m.mag, d + 1, n), e |-> x.m.e + W * d],
        r |-> RAdd(x.r, RPow2(x.m.e + W * d))]

BNeg(x) == [x EXCEPT !.m = DNeg(@)]
BScale2(x, k) == [m |-> DScale2(x.m, k), r |-> RScale(x.r, k)]
BAdd(x, y) == BNorm([m |-> DAdd(x.m, y.m), r |-> RAdd(x.r, y.r)])
BSub(x, y) == BAdd(x, BNeg(y))
BMul(x, y) ==
  BNorm([m |-> DMul(x.m, y.m),
         r |-> IF x.r.m = 0 /\ y.r.m = 0 THEN RZero
               ELSE RAdd(RAdd(RMul(RAbsD(x.m), y.r), RMul(RAbsD(y.m), x.r)), RMul(x.r, y.r))])
BSqr(x) == BMul(x, x)
\* multiplication by / addition of an exact dyadic
BMulD(x, d) == BNorm([m |-> DMul(x.m, d), r |-> RMul(x.r, RAbsD(d))])
BAddD(x, d) == BNorm([m |-> DAdd(x.m, d), r |-> x.r])

\* division by a small positive integer n < 2^15 (floor on a mantissa extended to > K limbs)
BDivInt(x, n) ==
  IF x.m.mag = <<>> THEN x
  ELSE LET ext == MaxI(0, K + 1 - Len(x.m.mag))
           mg == ShiftLimbs(x.m.mag, ext)
           q == DivLimb(mg, n).q
           e2 == x.m.e - W * ext
       IN BNorm([m |-> [neg |-> x.m.neg, mag |-> q, e |-> e2], r |-> RAdd(x.r, RPow2(e2))])

\* enclosure end points (dyadics)
BLoD(x) == IF x.r.m = 0 THEN x.m ELSE DSub(x.m, RAsD(x.r))
BHiD(x) == IF x.r.m = 0 THEN x.m ELSE DAdd(x.m, RAsD(x.r))
\* every point of the ball has magnitude < 2^BAbsHiExp  (an integer exponent; -10^6 for the exact zero)
BAbsHiExp(x) == LET a == RAdd(RAbsD(x.m), x.r) IN IF a.m = 0 THEN -1000000 ELSE RExp(a)

CertLeqD(x, d) == DCmp(BHiD(x), d) <= 0
CertGeqD(x, d) == DCmp(BLoD(x), d) >= 0
CertLtD(x, d) == DCmp(BHiD(x), d) < 0
CertGtD(x, d) == DCmp(BLoD(x), d) > 0
CertLeq(x, y) == DCmp(BHiD(x), BLoD(y)) <= 0
CertLt(x, y) == DCmp(BHiD(x), BLoD(y)) < 0
CertPos(x) == CertGtD(x, DZero)
CertNeg(x) == CertLtD(x, DZero)

\* |x| as a ball (encloses |v| for every v in x)
BAbs(x) == IF CertNeg(x) THEN BNeg(x) ELSE IF CertPos(x) \/ x.r.m = 0 THEN [x EXCEPT !.m = DAbs(@)]
           ELSE [m |-> DAbs(x.m), r |-> RScale(x.r, 1)]

\* three-valued  x <= y
Leq3(x, y) == IF CertLeq(x, y) THEN "yes" ELSE IF CertLt(y, x) THEN "no" ELSE "undecided"
And3(a, b) == IF a = "no" \/ b = "no" THEN "no" ELSE IF a = "yes" /\ b = "yes" THEN "yes" ELSE "undecided"
Or3(a, b) == IF a = "yes" \/ b = "yes" THEN "yes" ELSE IF a = "no" /\ b = "no" THEN "no" ELSE "undecided"

\* is the radius at most 2^-k times the magnitude of the midpoint?
RelTight(x, k) == x.r.m = 0 \/ (x.m.mag # <<>> /\ RExp(x.r) + k <= MagExp(x.m) - 1)
Hopeless == BallOf(DZero, RPow2(100000))       \* "no information": makes every comparison undecided

\* reciprocal of a ball that excludes zero (long division on the midpoint)
BRecip(y) ==
  IF y.m.mag = <<>> \/ ~RelTight(y, 3) THEN Hopeless ELSE
  LET mg == y.m.mag
      L == BitLen(mg)
      s == L + W * K
      q == DivMod(Pow2N(s), mg).q
      e2 == -s - y.m.e
      \* |1/(m+d) - 1/m| <= |d| / (|m| (|m| - |d|)) <= |d| * 2^(2 - 2 (MagExp - 1)) when |d| <= |m|/2
      rprop == RScale(y.r, 2 - 2 * (MagExp(y.m) - 1))
  IN BNorm([m |-> [neg |-> y.m.neg, mag |-> q, e |-> e2], r |-> RAdd(rprop, RPow2(e2))])
BDiv(x, y) == BMul(x, BRecip(y))

\* square root of a ball that is positive
BSqrt(x) ==
  IF x.m.mag = <<>> \/ x.m.neg \/ ~RelTight(x, 3) THEN Hopeless ELSE
  LET mg == x.m.mag
      L == BitLen(mg)
      s0 == MaxI(0, 2 * W * K - L)
      s == IF (x.m.e - s0) % 2 = 0 THEN s0 ELSE s0 + 1
      rt == ISqrt(Shl(mg, s)).s
      e2 == (x.m.e - s) \div 2
      \* |sqrt(m+d) - sqrt(m)| <= |d| / sqrt(m - |d|) <= |d| * 2^(1 - (MagExp - 2) \div 2)
      rprop == RScale(x.r, 1 - ((MagExp(x.m) - 2) \div 2))
  IN BNorm([m |-> [neg |-> FALSE, mag |-> rt, e |-> e2], r |-> RAdd(rprop, RPow2(e2))])
=============================================================================
