SPECIFICATION Spec
CONSTANTS
  P = 4
  EMIN <- EMIN_WIDE
  EMAX <- EMAX_WIDE
  MODE = "cmp"
  E0 <- E0_ZERO
  GAP = 2
  LOW = 4
  WBITS = 8
INVARIANT NoBad
POSTCONDITION Report
CHECK_DEADLOCK FALSE
