---------------------------- MODULE ContractsMisc ----------------------------
(***************************************************************************)
(* Contracts that need no transcendental oracle: the fused multiply-add    *)
(* hook (C11), the structural clauses of powi (C13), and the C01 clause of *)
(* the remaining TwoFloat-returning entry points.  The accuracy clauses of *)
(* C12-C18 are in ContractsElem (interval oracle).                         *)
(***************************************************************************)
EXTENDS ContractsConv

\* i32 exponent as a signed BigNat pair
IsIntZero(a) == a.mag = <<>>
IsIntOne(a) == a.mag = <<1>> /\ ~a.neg

FmaFails(A, r) ==
  Chk(r.t = "f" /\ r.w = FMA(A[1].w, A[2].w, A[3].w), "C11", "fma_not_correctly_rounded")

PowiStructFails(x, n, r) ==
  IF ~Valid(x) THEN {Skip}
  ELSE IF r.t # "tf" THEN Fail("C13", "powi_panics")
  ELSE IF IsIntZero(n)
       THEN (IF IsZeroTF(x) THEN Chk(~Valid(r.x), "C13", "zero_pow_zero_not_nan")
             ELSE Chk(Valid(r.x) /\ DCmp(Value(r.x), DOne) = 0, "C13", "pow_zero_not_one"))
  ELSE IF IsIntOne(n) THEN Chk(r.x = x, "C13", "pow_one_not_identity")
  ELSE {}
=============================================================================
