SPECIFICATION Spec
CONSTANTS
  P = 5
  EMIN <- EMIN_WIDE
  EMAX <- EMAX_WIDE
  MODE = "toint"
  E0 <- E0_M3
  GAP = 4
  LOW = 12
  WBITS = 4
INVARIANT NoBad
POSTCONDITION Report
CHECK_DEADLOCK FALSE
